package main

// publish.go — A9: single snapshot, immutable-once-published, publish-to-all,
// serialised writers, compile-before-publish.

import (
	"fmt"
	"go/token"
	"go/types"
	"strings"

	"golang.org/x/tools/go/ssa"
)

// isKcLoad: v is a load of the Kc field of a RuleBuilder.
func isKcFieldAddr(v ssa.Value) bool {
	fa, ok := v.(*ssa.FieldAddr)
	if !ok {
		return false
	}
	fv := fieldOf(fa)
	return fv != nil && fv.Name() == "Kc" && structName(fa.X.Type()) == "RuleBuilder"
}

// ruleU1: each Gengine.Execute* reads rb.Kc exactly once, in its own body, before anything runs.
func (c *Ctx) ruleU1(rule string) {
	for _, fn := range c.engineExecFns() {
		m := c.engModel(fn)
		var loads []ssa.Instruction
		eachInstrDeep(fn, func(f *ssa.Function, in ssa.Instruction) {
			if u, ok := in.(*ssa.UnOp); ok && u.Op == token.MUL && isKcFieldAddr(u.X) {
				loads = append(loads, in)
			}
		})
		key := fnName(fn)
		if len(loads) != 1 {
			p := fn.Pos()
			if len(loads) > 1 {
				p = loads[1].Pos()
			}
			c.Check(rule, key, false, p, "the published rule container rb.Kc is read %d times in one execution (want exactly one snapshot): an update in between makes the execution mix versions", len(loads))
			continue
		}
		ld := loads[0]
		ok := ld.Parent() == fn
		eachInstr(fn, func(in ssa.Instruction) {
			run := false
			if _, isGo := in.(*ssa.Go); isGo {
				run = true
			}
			if call, isCall := in.(*ssa.Call); isCall && isRuleExec(call) {
				run = true
			}
			if run && !domInstr(ld, in) {
				ok = false
			}
		})
		_ = m
		// helpers called from the execution must not read the published container again
		reread := ""
		seenF := map[*ssa.Function]bool{}
		var visit func(g *ssa.Function, depth int)
		visit = func(g *ssa.Function, depth int) {
			if g == nil || seenF[g] || g.Blocks == nil || depth > 6 {
				return
			}
			seenF[g] = true
			eachInstrDeep(g, func(h *ssa.Function, in ssa.Instruction) {
				if g != fn {
					if u, ok := in.(*ssa.UnOp); ok && u.Op == token.MUL && isKcFieldAddr(u.X) && reread == "" {
						reread = fnName(g)
					}
				}
				if cc := callCommon(in); cc != nil {
					cal := cc.StaticCallee()
					if cal == nil || cal.Pkg == nil || !strings.HasPrefix(cal.Pkg.Pkg.Path(), modPath) {
						return
					}
					// the rule interpreter and the data context do not receive the rule builder
					pk := cal.Pkg.Pkg.Path()
					if pk == pBase || pk == pContext || pk == pCore || pk == pIter {
						return
					}
					visit(cal, depth+1)
				}
			})
		}
		visit(fn, 0)
		if reread != "" {
			ok = false
		}
		c.Check(rule, key, ok, ld.Pos(), "one snapshot of rb.Kc taken before anything runs%s", map[bool]string{true: "", false: " — but " + reread + ", called from this execution, reads the published container again"}[reread == ""])
	}
}

// freshKc: the KnowledgeContext value is one this function created and has not published yet.
func (x *FnIndex) freshKc(v ssa.Value) bool {
	o := x.Origin(v)
	switch t := o.(type) {
	case *ssa.Call:
		return calleeIs(t, pBase, "", "NewKnowledgeContext")
	case *ssa.Alloc:
		return true // &KnowledgeContext{...} literal
	}
	return false
}

// derivesFromPublished: the slice value shares its backing array with a slice
// field of a KnowledgeContext this function did not create.
func (x *FnIndex) derivesFromPublished(v ssa.Value, seen map[ssa.Value]bool) bool {
	if seen[v] {
		return false
	}
	seen[v] = true
	o := x.Origin(v)
	switch t := o.(type) {
	case *ssa.Slice:
		return x.derivesFromPublished(t.X, seen)
	case *ssa.Call:
		if args, ok := builtinCall(t, "append"); ok {
			return x.derivesFromPublished(args[0], seen)
		}
		return false
	case *ssa.UnOp:
		if t.Op != token.MUL {
			return false
		}
		if fa, ok := t.X.(*ssa.FieldAddr); ok && structName(fa.X.Type()) == "KnowledgeContext" {
			return !x.freshKc(fa.X)
		}
		if x.Cell(t) != nil {
			for _, pv := range x.PossibleValues(t) {
				if pv.V != nil && pv.V != o && x.derivesFromPublished(pv.V, seen) {
					return true
				}
			}
		}
	}
	return false
}

// reslicedPublished: the slice value was obtained by re-slicing (s[:i], s[:0]) memory of a
// published sorted list, possibly through local variables and earlier appends; appending to it
// overwrites elements that running executions can see.
func (x *FnIndex) reslicedPublished(v ssa.Value, seen map[ssa.Value]bool) bool {
	if seen[v] {
		return false
	}
	seen[v] = true
	o := x.Origin(v)
	switch t := o.(type) {
	case *ssa.Slice:
		if t.High != nil && x.derivesFromPublished(t.X, map[ssa.Value]bool{}) {
			return true
		}
		return x.reslicedPublished(t.X, seen)
	case *ssa.Call:
		if args, ok := builtinCall(t, "append"); ok {
			return x.reslicedPublished(args[0], seen)
		}
	case *ssa.UnOp:
		if t.Op == token.MUL && x.Cell(t) != nil {
			for _, pv := range x.PossibleValues(t) {
				if pv.V != nil && pv.V != o && x.reslicedPublished(pv.V, seen) {
					return true
				}
			}
			// stores not reaching this particular load still describe what the variable may hold
			for _, st := range x.stores[x.Cell(t)] {
				if x.reslicedPublished(st.Val, seen) {
					return true
				}
			}
		}
	}
	return false
}

// ruleU2: nothing writes into a rule container that may already be published.
func (c *Ctx) ruleU2(rule string) {
	n := 0
	for _, f := range c.AllFns {
		if f.Pkg == nil {
			continue
		}
		x := c.Index(f)
		k := 0
		isKcMethod := recvName(f) == "KnowledgeContext"
		eachInstr(f, func(in ssa.Instruction) {
			switch t := in.(type) {
			case *ssa.Store:
				if fa, ok := t.Addr.(*ssa.FieldAddr); ok && structName(fa.X.Type()) == "KnowledgeContext" {
					n++
					k++
					key := fmt.Sprintf("%s#kc-field-store%d", fnName(f), k)
					if isKcMethod {
						if _, isRecv := x.Origin(fa.X).(*ssa.Parameter); isRecv {
							// a mutating method: its callers are checked below
							c.Check(rule, key, true, in.Pos(), "mutating method of KnowledgeContext (callers checked)")
							return
						}
					}
					c.Check(rule, key, x.freshKc(fa.X), in.Pos(), "field %s of a rule container that this function did not just create is overwritten in place (container: %s); running executions hold that container", fieldOf(fa).Name(), x.Describe(fa.X))
				}
				// the container overwritten as a whole through a pointer: `*own = *kc`
				if nt, ok := t.Val.Type().(*types.Named); ok && nt.Obj().Name() == "KnowledgeContext" && nt.Obj().Pkg() != nil && nt.Obj().Pkg().Path() == pBase {
					if _, isCell := t.Addr.(*ssa.Alloc); !isCell {
						n++
						k++
						c.Check(rule, fmt.Sprintf("%s#kc-whole-store%d", fnName(f), k), x.freshKc(t.Addr), in.Pos(), "a rule container that this function did not just create is overwritten as a whole (container: %s); running executions hold that container and would see the new version halfway through", x.Describe(t.Addr))
					}
				}
				if ia, ok := t.Addr.(*ssa.IndexAddr); ok {
					if sl, ok := ia.X.Type().Underlying().(*types.Slice); ok && structName(sl.Elem()) == "RuleEntity" {
						n++
						k++
						key := fmt.Sprintf("%s#rule-slice-store%d", fnName(f), k)
						c.Check(rule, key, !x.derivesFromPublished(ia.X, map[ssa.Value]bool{}), in.Pos(), "element store into %s, which shares memory with the published sorted list", x.Describe(ia.X))
					}
				}
			case *ssa.MapUpdate:
				if u, ok := x.Origin(t.Map).(*ssa.UnOp); ok {
					if fa, ok := u.X.(*ssa.FieldAddr); ok && structName(fa.X.Type()) == "KnowledgeContext" {
						n++
						k++
						key := fmt.Sprintf("%s#kc-map-update%d", fnName(f), k)
						okW := x.freshKc(fa.X)
						// the listener fills the container it was constructed with (checked fresh at construction sites)
						if b, isL := x.isFieldLoad(fa.X, "GengineParserListener", "KnowledgeContext"); isL && b != nil {
							okW = true
						}
						c.Check(rule, key, okW, in.Pos(), "map %s of a rule container that this function did not just create is updated in place", fieldOf(fa).Name())
					}
				}
			case *ssa.Call:
				if args, ok := builtinCall(t, "append"); ok {
					if sl, ok := args[0].Type().Underlying().(*types.Slice); ok && structName(sl.Elem()) == "RuleEntity" {
						if x.reslicedPublished(args[0], map[ssa.Value]bool{}) {
							n++
							k++
							key := fmt.Sprintf("%s#in-place-append%d", fnName(f), k)
							c.Check(rule, key, false, in.Pos(), "append to %s writes into memory shared with the published sorted list (it was obtained by re-slicing that list, so elements visible to running executions are overwritten)", x.Describe(args[0]))
						} else if s, isSlice := x.Origin(args[0]).(*ssa.Slice); isSlice && s.High != nil {
							n++
							k++
							key := fmt.Sprintf("%s#in-place-append%d", fnName(f), k)
							c.Check(rule, key, true, in.Pos(), "in-place append on a private copy")
						}
					}
				}
				// callers of mutating KnowledgeContext methods
				if cal := t.Call.StaticCallee(); cal != nil && recvName(cal) == "KnowledgeContext" && cal.Pkg != nil && cal.Pkg.Pkg.Path() == pBase && cal.Name() != "" {
					mut := false
					eachInstr(cal, func(i2 ssa.Instruction) {
						if st, ok := i2.(*ssa.Store); ok {
							if fa, ok := st.Addr.(*ssa.FieldAddr); ok && structName(fa.X.Type()) == "KnowledgeContext" {
								mut = true
							}
						}
					})
					if mut {
						n++
						k++
						key := fmt.Sprintf("%s#calls-%s%d", fnName(f), cal.Name(), k)
						c.Check(rule, key, x.freshKc(t.Call.Args[0]), in.Pos(), "%s mutates a rule container in place; it is called on %s, which this function did not just create", cal.Name(), x.Describe(t.Call.Args[0]))
					}
				}
				// listener construction sites: the container handed to the listener is fresh
				if calleeIs(t, pIparser, "", "NewGengineParserListener") {
					n++
					k++
					key := fmt.Sprintf("%s#listener-container%d", fnName(f), k)
					c.Check(rule, key, x.freshKc(t.Call.Args[0]), in.Pos(), "the parser listener must fill a fresh KnowledgeContext, got %s", x.Describe(t.Call.Args[0]))
				}
			}
		})
	}
	if n == 0 {
		c.Lost(rule, "writes into KnowledgeContext")
	}
	// compiled rule entities / AST nodes are written only at compile time
	nScanned := 0
	defer func() {
		c.Check(rule, "compiled-rules#ast-store-scan", nScanned >= 100, 0, "%d functions outside the compile step were searched for stores into nodes of compiled rules (at least 100 expected)", nScanned)
	}()
	for _, f := range c.AllFns {
		if f.Pkg == nil {
			continue
		}
		pk := f.Pkg.Pkg.Path()
		if pk == pIparser || pk == pParser {
			continue
		}
		if pk == pBase && (strings.HasPrefix(rootOf(f).Name(), "Accept") || strings.HasPrefix(rootOf(f).Name(), "New")) {
			continue
		}
		nScanned++
		eachInstr(f, func(in ssa.Instruction) {
			// memory hanging off a node (the elements of a slice or map held in one of its fields)
			// is shared in the same way as the node itself
			xx0 := c.Index(f)
			nodeField := func(v ssa.Value) string {
				var seen func(v ssa.Value, d int) string
				seen = func(v ssa.Value, d int) string {
					if d > 4 {
						return ""
					}
					for _, pv := range xx0.PossibleValues(v) {
						o := pv.V
						if o == nil {
							continue
						}
						if sl, isSl := o.(*ssa.Slice); isSl {
							if r := seen(sl.X, d+1); r != "" {
								return r
							}
							continue
						}
						ld, isLd := o.(*ssa.UnOp)
						if !isLd || ld.Op != token.MUL {
							continue
						}
						fa, isFa := ld.X.(*ssa.FieldAddr)
						if !isFa {
							continue
						}
						nt := namedOf(derefType(fa.X.Type()))
						if nt == nil || nt.Obj().Pkg() == nil || nt.Obj().Pkg().Path() != pBase || nt.Obj().Name() == "KnowledgeContext" || !c.astTypes()[nt.Obj().Name()] {
							continue
						}
						if _, fresh := xx0.Origin(fa.X).(*ssa.Alloc); fresh {
							continue
						}
						return nt.Obj().Name() + "." + fieldOf(fa).Name()
					}
					return ""
				}
				return seen(v, 0)
			}
			switch t := in.(type) {
			case *ssa.Store:
				if c.Prop != "C19" && c.Prop != "C15" && c.Prop != "C06" {
					// scratch memory on a node need not change what a version means; it is a conflicting access
					// (C19) and a value of one execution visible to another (C15)
					break
				}
				if ia, isIA := t.Addr.(*ssa.IndexAddr); isIA {
					if _, isSl := ia.X.Type().Underlying().(*types.Slice); isSl {
						if nf := nodeField(ia.X); nf != "" {
							c.Check(rule, fmt.Sprintf("%s#ast-element-store-%s", fnName(f), nf), false, in.Pos(), "an element of the slice held in %s of a compiled rule / AST node is written outside the compile step; the node and what hangs off it are shared by all executions and pool instances", nf)
						}
					}
				}
			case *ssa.MapUpdate:
				if c.Prop != "C19" && c.Prop != "C15" && c.Prop != "C06" {
					break
				}
				if nf := nodeField(t.Map); nf != "" {
					c.Check(rule, fmt.Sprintf("%s#ast-map-update-%s", fnName(f), nf), false, in.Pos(), "the map held in %s of a compiled rule / AST node is updated outside the compile step; the node and what hangs off it are shared by all executions and pool instances", nf)
				}
			}
			st, ok := in.(*ssa.Store)
			if !ok {
				return
			}
			fa, ok := st.Addr.(*ssa.FieldAddr)
			if !ok {
				// the whole node overwritten through a pointer: `*old = *new`
				if _, isCell := st.Addr.(*ssa.Alloc); isCell {
					return
				}
				// the stored value is the struct itself, not a pointer to it
				nt, isNamed := st.Val.Type().(*types.Named)
				if !isNamed || nt.Obj().Pkg() == nil || nt.Obj().Pkg().Path() != pBase || !c.astTypes()[nt.Obj().Name()] {
					return
				}
				if _, isStruct := nt.Underlying().(*types.Struct); !isStruct {
					return
				}
				xx := c.Index(f)
				if _, fresh := xx.Origin(st.Addr).(*ssa.Alloc); fresh {
					return
				}
				if _, isCell := xx.ResolveAddr(st.Addr).(*ssa.Alloc); isCell {
					return
				}
				c.Check(rule, fmt.Sprintf("%s#ast-store-%s.*", fnName(f), nt.Obj().Name()), false, in.Pos(), "a compiled rule / AST node (%s) is overwritten as a whole outside the compile step; compiled rules are shared by all executions and versions", nt.Obj().Name())
				return
			}
			nt := namedOf(derefType(fa.X.Type()))
			if nt == nil || nt.Obj().Pkg() == nil || nt.Obj().Pkg().Path() != pBase || nt.Obj().Name() == "KnowledgeContext" {
				return
			}
			// only the types a compiled rule is made of (reachable from RuleEntity); a helper type
			// of the package that lives in local variables is not shared between executions
			if !c.astTypes()[nt.Obj().Name()] {
				return
			}
			// ... and not a private instance the function created itself
			if _, fresh := c.Index(f).Origin(fa.X).(*ssa.Alloc); fresh {
				return
			}
			c.Check(rule, fmt.Sprintf("%s#ast-store-%s.%s", fnName(f), nt.Obj().Name(), fieldOf(fa).Name()), false, in.Pos(), "a compiled rule / AST node field (%s.%s) is written outside the compile step; compiled rules are shared by all executions and versions", nt.Obj().Name(), fieldOf(fa).Name())
		})
	}
}

func derefType(t types.Type) types.Type {
	if p, ok := t.Underlying().(*types.Pointer); ok {
		return p.Elem()
	}
	return t
}

// ruleU3: management operations store the new container into every instance before returning success.
func (c *Ctx) ruleU3(rule string) {
	for _, n := range []string{"UpdatePooledRules", "UpdatePooledRulesIncremental", "ClearPoolRules"} {
		f := c.MustFn(rule, "engine", "GenginePool", n)
		if f == nil {
			continue
		}
		x := c.Index(f)
		gp := ssa.Value(f.Params[0])
		var pub *ssa.Store
		okLoop := false
		var why string
		eachInstr(f, func(in ssa.Instruction) {
			st, ok := in.(*ssa.Store)
			if !ok || !isKcFieldAddr(st.Addr) {
				return
			}
			fa := st.Addr.(*ssa.FieldAddr)
			u, ok := x.Origin(fa.X).(*ssa.UnOp)
			if !ok {
				return
			}
			ia, ok := u.X.(*ssa.IndexAddr)
			if !ok {
				return
			}
			b, isRbs := x.isFieldLoad(ia.X, "GenginePool", "rbSlice")
			if !isRbs || x.Origin(b) != gp {
				return
			}
			pub = st
			// `for _, rb := range gp.rbSlice { rb.Kc = kc }`: every element of the slice
			if s, _, isRange := x.rangedSlice(u); isRange {
				if b2, is := x.isFieldLoad(s, "GenginePool", "rbSlice"); is && x.Origin(b2) == gp {
					if gs := x.GuardsOfInLoop(st.Block()); len(gs) > 0 {
						why = "the store is conditional inside the instance loop (" + x.describeGuards(gs) + ")"
						return
					}
					okLoop = true
					return
				}
			}
			cell := x.Cell(ia.Index)
			if cell == nil {
				why = "index is not a loop counter"
				return
			}
			bound, ok := x.countedFromZero(cell)
			if !ok {
				why = "the instance loop does not count from 0 by 1"
				return
			}
			bo := x.Origin(bound)
			if cv, isCv := bo.(*ssa.Convert); isCv {
				bo = x.Origin(cv.X)
			}
			mb, isMax := x.isFieldLoad(bo, "GenginePool", "max")
			lenB := false
			if args, isLen := builtinCall(bo, "len"); isLen {
				if b2, is := x.isFieldLoad(args[0], "GenginePool", "rbSlice"); is && x.Origin(b2) == gp {
					lenB = true
				}
			}
			if gs := x.GuardsOfInLoop(st.Block()); len(gs) > 0 {
				why = "the store is conditional inside the instance loop (" + x.describeGuards(gs) + ")"
				return
			}
			if (isMax && x.Origin(mb) == gp) || lenB {
				okLoop = true
			} else {
				why = "the instance loop runs to " + x.Describe(bound) + ", not to gp.max"
			}
		})
		if pub == nil {
			c.Check(rule, "GenginePool."+n+"#publishes-to-all", false, f.Pos(), "no store of the new container into gp.rbSlice[i].Kc")
			continue
		}
		c.Check(rule, "GenginePool."+n+"#publishes-to-all", okLoop, pub.Pos(), "every instance i in [0,max) must receive the new container: %s", orStr(why, "ok"))
		// the stored value is the one just built: the master's container, or a fresh empty one
		val := x.Origin(pub.Val)
		okVal := false
		if b, is := x.isFieldLoad(val, "RuleBuilder", "Kc"); is {
			if mb, isM := x.isFieldLoad(b, "GenginePool", "ruleBuilder"); isM && x.Origin(mb) == gp {
				okVal = true
			}
		}
		if b, is := x.isFieldLoad(val, "RuleBuilder", "Kc"); is && !okVal {
			// ... or the container of the very builder this function installs as the master
			eachInstr(f, func(in ssa.Instruction) {
				if st, isSt := in.(*ssa.Store); isSt {
					if fa, isFA := st.Addr.(*ssa.FieldAddr); isFA && fieldOf(fa).Name() == "ruleBuilder" && structName(fa.X.Type()) == "GenginePool" && x.Origin(fa.X) == gp {
						if x.Origin(st.Val) == x.Origin(b) {
							okVal = true
						}
					}
				}
			})
		}
		if x.freshKc(val) {
			okVal = true
		}
		c.Check(rule, "GenginePool."+n+"#publishes-new-container", okVal, pub.Pos(), "instances must receive the master's new container (or a fresh empty one), got %s", x.Describe(pub.Val))
		// success return only after the loop: the loop's exit dominates every nil return that follows a master change
		L := x.InnermostLoop(pub.Block())
		okRet := L != nil
		if L != nil {
			eachInstr(f, func(in ssa.Instruction) {
				r, isR := in.(*ssa.Return)
				if !isR || len(r.Results) == 0 || r.Block() == f.Recover {
					return
				}
				succ := false
				for _, pv := range x.PossibleValues(r.Results[0]) {
					if pv.V == nil || isConstNil(pv.V) {
						succ = true
					}
				}
				if succ && !L.Head.Dominates(r.Block()) {
					okRet = false
				}
			})
		}
		c.Check(rule, "GenginePool."+n+"#returns-after-publishing", okRet, pub.Pos(), "a successful return must come after the loop over all instances")
	}
	// RemoveRules: ranges the whole rbSlice
	if f := c.MustFn(rule, "engine", "GenginePool", "RemoveRules"); f != nil {
		x := c.Index(f)
		ok := false
		var call *ssa.Call
		eachInstr(f, func(in ssa.Instruction) {
			cl, isCall := in.(*ssa.Call)
			if !isCall || !calleeIs(cl, pBuilder, "RuleBuilder", "RemoveRules") {
				return
			}
			if s, _, isR := x.rangedSlice(cl.Call.Args[0]); isR {
				if b, is := x.isFieldLoad(s, "GenginePool", "rbSlice"); is && x.Origin(b) == ssa.Value(f.Params[0]) {
					_, lo, hi := x.sliceInterval(s)
					if lo.equal(constForm(0)) && hi.equal(x.symLen(s)) && x.Origin(cl.Call.Args[1]) == ssa.Value(f.Params[1]) {
						ok = true
						call = cl
					}
				}
			}
		})
		p := f.Pos()
		if call != nil {
			p = call.Pos()
		}
		if !ok {
			// alternative: publish the master's new container to every instance, like the update paths
			eachInstr(f, func(in ssa.Instruction) {
				st, isSt := in.(*ssa.Store)
				if !isSt || !isKcFieldAddr(st.Addr) {
					return
				}
				fa := st.Addr.(*ssa.FieldAddr)
				u, isU := x.Origin(fa.X).(*ssa.UnOp)
				if !isU {
					return
				}
				ia, isIA := u.X.(*ssa.IndexAddr)
				if !isIA {
					return
				}
				if b, isRbs := x.isFieldLoad(ia.X, "GenginePool", "rbSlice"); !isRbs || x.Origin(b) != ssa.Value(f.Params[0]) {
					return
				}
				cell := x.Cell(ia.Index)
				if cell == nil {
					return
				}
				bound, okB := x.countedFromZero(cell)
				if !okB {
					return
				}
				bo := x.Origin(bound)
				if cv, isCv := bo.(*ssa.Convert); isCv {
					bo = x.Origin(cv.X)
				}
				if mb, isMax := x.isFieldLoad(bo, "GenginePool", "max"); isMax && x.Origin(mb) == ssa.Value(f.Params[0]) {
					if kb, isK := x.isFieldLoad(st.Val, "RuleBuilder", "Kc"); isK {
						if m2, isM := x.isFieldLoad(kb, "GenginePool", "ruleBuilder"); isM && x.Origin(m2) == ssa.Value(f.Params[0]) {
							ok = true
							p = st.Pos()
						}
					}
				}
			})
		}
		c.Check(rule, "GenginePool.RemoveRules#removes-on-every-instance", ok, p, "the removal must reach every instance: applied with the caller's names to every element of gp.rbSlice, or the master's new container stored into gp.rbSlice[i].Kc for all i in [0,max)")
		// ... whenever the master's own removal went through: from the master's removal no
		// path reaches a return without entering the loop over the instances, except the
		// return of the master's error
		var master *ssa.Call
		eachInstr(f, func(in ssa.Instruction) {
			cl, isCall := in.(*ssa.Call)
			if !isCall || !calleeIs(cl, pBuilder, "RuleBuilder", "RemoveRules") {
				return
			}
			if b, is := x.isFieldLoad(cl.Call.Args[0], "GenginePool", "ruleBuilder"); is && x.Origin(b) == ssa.Value(f.Params[0]) {
				master = cl
			}
		})
		if master != nil && ok {
			var loopHead ssa.Instruction
			at := call
			var atIn ssa.Instruction
			if at != nil {
				atIn = at
			}
			eachInstr(f, func(in ssa.Instruction) {
				if st, isSt := in.(*ssa.Store); isSt && st.Pos() == p && atIn == nil {
					atIn = st
				}
			})
			if atIn != nil {
				if l := x.InnermostLoop(atIn.Block()); l != nil {
					loopHead = l.Head.Instrs[0]
				}
			}
			_, errSet := x.nilEdges(f, func(v ssa.Value) bool { return x.Origin(v) == ssa.Value(master) })
			skipped := loopHead == nil
			if loopHead != nil {
				_, skipped = pathExistsEB(f, master, isReturn, errSet, func(in ssa.Instruction) bool { return in == loopHead })
			}
			c.Check(rule, "GenginePool.RemoveRules#instances-follow-master", !skipped, master.Pos(), "once the master's removal has gone through, every path must go on to the loop over the instances: a return in between leaves the instances with the removed rules")
		}
	}
	// len(rbSlice) == max by construction: checked in ruleConstruction
}

// callersHold: every call site of f (in the product) holds the mutex.
func (c *Ctx) callersHold(f *ssa.Function, mutex string) (bool, int) {
	n := 0
	ok := true
	for _, g := range c.AllFns {
		x := c.Index(g)
		eachInstr(g, func(in ssa.Instruction) {
			cc := callCommon(in)
			if cc == nil || cc.StaticCallee() != f {
				return
			}
			n++
			if _, isCall := in.(*ssa.Call); !isCall {
				ok = false
				return
			}
			if _, h := x.heldAt(in)[mutex]; !h {
				ok = false
			}
		})
	}
	return ok && n > 0, n
}

// ruleU4: writers of the published state are serialised.
func (c *Ctx) ruleU4(rule string) {
	n := 0
	for _, f := range c.AllFns {
		if f.Pkg == nil {
			continue
		}
		pk := f.Pkg.Pkg.Path()
		if pk != pEngine && pk != pBuilder {
			continue
		}
		x := c.Index(f)
		k := 0
		eachInstr(f, func(in ssa.Instruction) {
			if call, isCall := in.(*ssa.Call); isCall && pk == pEngine {
				cal := call.Call.StaticCallee()
				if cal != nil && (fnIs(cal, pBuilder, "RuleBuilder", "RemoveRules") || fnIs(cal, pBuilder, "RuleBuilder", "BuildRuleFromString") || fnIs(cal, pBuilder, "RuleBuilder", "BuildRuleWithIncremental")) {
					if cl, isC := x.Origin(call.Call.Args[0]).(*ssa.Call); isC && calleeIs(cl, pBuilder, "", "NewRuleBuilder") {
						return // a builder still private to this function
					}
					n++
					k++
					held := x.heldAt(in)
					_, ok := held["GenginePool.updateLock"]
					c.Check(rule, fmt.Sprintf("%s#calls-%s-%d", fnName(f), cal.Name(), k), ok, in.Pos(), "%s on a shared rule builder with locks held %v (need GenginePool.updateLock)", cal.Name(), heldNames(held))
				}
				return
			}
			st, ok := in.(*ssa.Store)
			if !ok {
				return
			}
			fa, ok := st.Addr.(*ssa.FieldAddr)
			if !ok {
				return
			}
			sn, fnm := structName(fa.X.Type()), fieldOf(fa).Name()
			want := ""
			switch {
			case sn == "RuleBuilder" && fnm == "Kc" && pk == pEngine:
				want = "GenginePool.updateLock"
			case sn == "RuleBuilder" && fnm == "Kc" && pk == pBuilder:
				want = "RuleBuilder.buildLock"
			case sn == "GenginePool" && (fnm == "ruleBuilder" || fnm == "clear" || fnm == "execModel"):
				want = "GenginePool.updateLock"
			default:
				return
			}
			// construction: the object is not shared yet
			if _, isAlloc := x.Origin(fa.X).(*ssa.Alloc); isAlloc {
				return
			}
			if cl, isCall := x.Origin(fa.X).(*ssa.Call); isCall && (calleeIs(cl, pBuilder, "", "NewRuleBuilder")) {
				return // a builder created in this function (NewGenginePool's per-instance builders)
			}
			n++
			k++
			key := fmt.Sprintf("%s#store-%s.%s-%d", fnName(f), sn, fnm, k)
			held := x.heldAt(in)
			_, ok = held[want]
			if !ok && f.Object() != nil && !f.Object().Exported() && f.Signature.Recv() == nil {
				if hold, nc := c.callersHold(f, want); hold {
					ok = true
					_ = nc
				}
			}
			c.Check(rule, key, ok, in.Pos(), "store to %s.%s with locks held %v (need %s)", sn, fnm, heldNames(held), want)
		})
	}
	if n == 0 {
		c.Lost(rule, "stores to published state")
	}
}

// ruleK2: all-or-nothing: no store to installed state can be followed by an error return.
func (c *Ctx) ruleK2(rule string) {
	entries := [][3]string{
		{"builder", "RuleBuilder", "BuildRuleFromString"},
		{"builder", "RuleBuilder", "BuildRuleWithIncremental"},
		{"builder", "RuleBuilder", "RemoveRules"},
		{"engine", "GenginePool", "UpdatePooledRules"},
		{"engine", "GenginePool", "UpdatePooledRulesIncremental"},
		{"engine", "GenginePool", "RemoveRules"},
		{"engine", "", "NewGenginePool"},
		{"engine", "", "makeRuleBuilder"},
		{"engine", "", "getKc"},
	}
	for _, e := range entries {
		f := c.MustFn(rule, e[0], e[1], e[2])
		if f == nil {
			continue
		}
		x := c.Index(f)
		var pubs []ssa.Instruction
		eachInstr(f, func(in ssa.Instruction) {
			switch t := in.(type) {
			case *ssa.Store:
				if fa, ok := t.Addr.(*ssa.FieldAddr); ok {
					sn, fnm := structName(fa.X.Type()), fieldOf(fa).Name()
					isInstalled := (sn == "RuleBuilder" && fnm == "Kc") || (sn == "GenginePool" && (fnm == "ruleBuilder" || fnm == "clear"))
					if !isInstalled {
						return
					}
					if cl, isCall := x.Origin(fa.X).(*ssa.Call); isCall && calleeIs(cl, pBuilder, "", "NewRuleBuilder") {
						return // a builder that is still private to this function
					}
					if _, isAlloc := x.Origin(fa.X).(*ssa.Alloc); isAlloc {
						return
					}
					pubs = append(pubs, in)
				}
			case *ssa.Call:
				// calls that install into a shared builder
				if cal := t.Call.StaticCallee(); cal != nil {
					if fnIs(cal, pEngine, "", "updateIncremental") {
						pubs = append(pubs, in)
					}
					if fnIs(cal, pBuilder, "RuleBuilder", "RemoveRules") || fnIs(cal, pBuilder, "RuleBuilder", "BuildRuleFromString") || fnIs(cal, pBuilder, "RuleBuilder", "BuildRuleWithIncremental") {
						if cl, isCall := x.Origin(t.Call.Args[0]).(*ssa.Call); isCall && calleeIs(cl, pBuilder, "", "NewRuleBuilder") {
							return
						}
						if fnIs(cal, pBuilder, "RuleBuilder", "RemoveRules") && e[1] == "GenginePool" {
							// the master's removal may itself fail before anything is installed; instance removals follow
							if b, is := x.isFieldLoad(t.Call.Args[0], "GenginePool", "ruleBuilder"); is && b != nil {
								return
							}
						}
						pubs = append(pubs, in)
					}
				}
			}
		})
		key := fnName(f)
		bad := ""
		var badPos token.Pos
		for _, p := range pubs {
			if hit, found := pathExists(f, p, func(in ssa.Instruction) bool {
				r, ok := in.(*ssa.Return)
				if !ok || len(r.Results) == 0 {
					return false
				}
				last := r.Results[len(r.Results)-1]
				if !isErrorType(last.Type()) {
					return false
				}
				for _, pv := range x.PossibleValues(last) {
					if pv.V != nil && !isConstNil(pv.V) {
						return true
					}
				}
				return false
			}, nil); found {
				bad = "an error return at " + c.pos(hit.Pos()) + " is reachable after installed state was changed at " + c.pos(p.Pos())
				badPos = p.Pos()
			}
		}
		c.Check(rule, key, bad == "", badPos, "%s", orStr(bad, fmt.Sprintf("%d publishing step(s); none can be followed by an error return", len(pubs))))
	}
}

// astTypes: the named struct types of package base that a compiled rule
// consists of: everything reachable from RuleEntity through fields, pointers,
// slices and maps.
func (c *Ctx) astTypes() map[string]bool {
	if v, ok := c.extra["astTypes"].(map[string]bool); ok {
		return v
	}
	out := map[string]bool{}
	sp := c.SSA[pBase]
	var visit func(t types.Type, d int)
	visit = func(t types.Type, d int) {
		if d > 12 {
			return
		}
		switch u := t.(type) {
		case *types.Pointer:
			visit(u.Elem(), d+1)
		case *types.Slice:
			visit(u.Elem(), d+1)
		case *types.Array:
			visit(u.Elem(), d+1)
		case *types.Map:
			visit(u.Key(), d+1)
			visit(u.Elem(), d+1)
		case *types.Named:
			if u.Obj().Pkg() == nil || u.Obj().Pkg().Path() != pBase {
				return
			}
			if out[u.Obj().Name()] {
				return
			}
			if st, ok := u.Underlying().(*types.Struct); ok {
				out[u.Obj().Name()] = true
				for i := 0; i < st.NumFields(); i++ {
					visit(st.Field(i).Type(), d+1)
				}
			}
		}
	}
	if sp != nil {
		if t := sp.Type("RuleEntity"); t != nil {
			visit(t.Type(), 0)
		}
	}
	c.extra["astTypes"] = out
	return out
}

// ruleContainersOwnTheirMemory: the maps and the list of a rule container belong to that container. No
// store into a KnowledgeContext field takes its value from a package-level variable: a map shared by
// "fresh" containers is filled by one build and read by every other (the builders fill the index of the
// container they were given in place).
func (c *Ctx) ruleContainersOwnTheirMemory(rule string) {
	n := 0
	for _, f := range c.AllFns {
		if f.Pkg == nil || !strings.HasPrefix(f.Pkg.Pkg.Path(), modPath) || f.Pkg.Pkg.Path() == pParser {
			continue
		}
		x := c.Index(f)
		k := 0
		eachInstr(f, func(in ssa.Instruction) {
			st, ok := in.(*ssa.Store)
			if !ok {
				return
			}
			fa, ok := st.Addr.(*ssa.FieldAddr)
			if !ok || structName(fa.X.Type()) != "KnowledgeContext" {
				return
			}
			n++
			k++
			shared := ""
			for _, pv := range x.PossibleValues(st.Val) {
				if pv.V == nil {
					continue
				}
				if ld, isLd := x.Origin(pv.V).(*ssa.UnOp); isLd && ld.Op == token.MUL {
					if g, isG := ld.X.(*ssa.Global); isG {
						shared = g.Name()
					}
				}
			}
			c.Check(rule, fmt.Sprintf("%s#%s%d", fnName(f), fieldOf(fa).Name(), k), shared == "", in.Pos(), "field %s of a rule container is given the package-level variable %s: every container made this way shares that memory", fieldOf(fa).Name(), shared)
		})
	}
	if n == 0 {
		c.Lost(rule, "stores into KnowledgeContext fields")
	}
}
