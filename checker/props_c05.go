package main

import (
	"fmt"
	"go/token"
	"golang.org/x/tools/go/ssa"
	"strings"
)

func init() {
	register("C05", runC05, propMeta{
		Explanation: "Decides, for every goroutine interleaving, the barrier shape of the mix, inverse-mix and N-M models: (B1, rule A4) every go statement starts a literal that executes exactly one rule — the per-iteration copy of the element of the loop that starts it — and reaches Done() once on all paths; one Add(n) precedes the fan-out with n equal, as a symbolic linear form over len() and the parameters, to the number of goroutines started; Wait() lies on every path from the fan-out to any return, later rule execution, later fan-out or read of the error list; appends to the shared error list inside goroutines hold the local mutex; (B2) in mix the first rule runs synchronously before the fan-out over rules[1:], its failure returns before any goroutine starts, in inverse-mix the fan-out covers rules[:len-1], is joined, a collected error returns, and only then rules[len-1] runs; (B3) N-M windows are S[0:n) and S[n:n+m) of the same list, guarded by n>0, m>0, n+m<=len(S) (== len(names) for selected); (B4) sorted stages obey the A3 loop discipline with the function's flag, and after a concurrent first stage `!flag && errors -> return` dominates stage two; (B5) sorted stages range a sorted source; collected errors surface. The argument uses only the WaitGroup contract and program order, so it holds under every schedule. Not decided: fairness, timing. In every goroutine of a concurrent stage no path from its entry to its end avoids the call that runs its rule (worker-on-every-path). The pool's mix / inverse / N-M methods call the engine method of their own name with their own arguments, each in its place: the stage sizes N and M are not swapped on the way (B7). (B8) the binary search that keeps the container's list sorted under incremental updates returns (insertion point, 0) on a miss. (B9) RuleEntity.Execute turns a panic of the rule body into its named error result: a faulting rule fails. The list the windows are cut from holds every loaded rule once only if both copies of the incremental merge keep list, name map and index in step (the merge model of C08-H2..H5, armed under B8). A removal installs a fresh, re-sorted list and never filters the published one in place (the full-build-and-removal rule of C04-O2, armed under B8). (B10) the pool's dispatchers by execution model call the engine method of the model asked for, whatever the number of rules. (B11) every sort of rule entities orders by descending salience and by nothing else.",
		Assumptions: []string{"sync.WaitGroup: Wait returns only after the counter reached zero", "RuleEntity.Execute does not return before the rule finished"},
		Trusted:     commonTrusted,
	})
}

var c05Mix = []string{"ExecuteMixModel", "ExecuteMixModelWithStopTagDirect", "ExecuteSelectedRulesMixModel"}
var c05Inverse = []string{"ExecuteInverseMixModel", "ExecuteSelectedRulesInverseMixModel"}
var c05NM = []string{"ExecuteNSortMConcurrent", "ExecuteNConcurrentMSort", "ExecuteNConcurrentMConcurrent",
	"ExecuteSelectedNSortMConcurrent", "ExecuteSelectedNConcurrentMSort", "ExecuteSelectedNConcurrentMConcurrent"}

func isRuleExec(call *ssa.Call) bool { return calleeIs(call, pBase, "RuleEntity", "Execute") }

func runC05(c *Ctx) {
	// the pool's mix / inverse-mix / N-M methods hand the model's error to their caller
	c.armPoolError("B6-pool-reports-the-error", func(m string) bool {
		return strings.Contains(m, "Mix") || strings.Contains(m, "NSort") || strings.Contains(m, "NConcurrent")
	}, 10)
	// ... and hand their own arguments to the engine method of the same name, each in its place
	c.armPoolArgs("B7-pool-passes-its-arguments", func(m string) bool {
		return strings.Contains(m, "Mix") || strings.Contains(m, "NSort") || strings.Contains(m, "NConcurrent")
	}, 10)
	// the windows [:n] and [n:][:m], "the highest", "the lowest" are cut from kc.SortRules: they are the N+M
	// highest-priority rules only if that list is sorted, also after incremental updates, which keep it
	// sorted through the binary search (C08-H1b: a miss returns the insertion point and 0)
	c.ruleBinarySearch("B8-container-list-stays-sorted")
	// ... and hold every loaded rule exactly once only if the merge keeps list, name map and index in
	// step (C08-H2..H5 on both copies of the merge): an index rebuilt once after the loop lets the second
	// moved rule of one update delete a neighbour and leave its own old version in the list
	for _, spec := range [][3]string{{"builder", "RuleBuilder", "BuildRuleWithIncremental"}, {"engine", "", "updateIncremental"}} {
		if f := c.MustFn("B8-container-list-stays-sorted", spec[0], spec[1], spec[2]); f != nil {
			c.mergeModel("B8-container-list-stays-sorted", f)
		}
	}
	// ... and a removal installs a fresh, re-sorted list (C04-O2): filtering the published list in place
	// rewrites what executions in flight and the other builders of a pool are ranging over
	c.ruleFullBuildAndRemoval("B8-container-list-stays-sorted")
	c.Min("B8-container-list-stays-sorted", 36)
	// the pool's dispatchers by execution model hand a request of the mix or inverse-mix model to that
	// model's engine method, whatever the number of rules: a shortcut through the sort model for "one or
	// two rules" has another error policy (the dispatch table of C16-Q5)
	// "the highest", "the lowest" and the windows are positions in lists sorted by salience: every sort of
	// rule entities in the product, the full build's included, orders by descending salience and by nothing
	// else (C04-O1) -- a comparator that also looks at the name is no order at all
	c.ruleO1("B11-lists-sorted-by-salience")
	c.Min("B11-lists-sorted-by-salience", 10)
	c.only = func(key string) bool { return strings.Contains(key, "WithSpecifiedEM#") }
	c.ruleModelTable("B10-dispatch-runs-the-model-asked-for")
	c.only = nil
	c.Min("B10-dispatch-runs-the-model-asked-for", 8)
	// a rule that faults fails: RuleEntity.Execute turns a panic of the rule body into its (named) error
	// result (C09-R1 for this function); without that a faulting rule counts as a success and whatever the
	// model makes depend on "nothing before failed" runs all the same
	if f := c.MustFn("B9-a-faulting-rule-fails", "internal/base", "RuleEntity", "Execute"); f != nil {
		ok, why := c.panicSafe(f)
		c.Check("B9-a-faulting-rule-fails", "RuleEntity.Execute", ok, f.Pos(), "%s", why)
	}

	kind := map[string]string{}
	var all []string
	for _, n := range c05Mix {
		kind[n] = "mix"
		all = append(all, n)
	}
	for _, n := range c05Inverse {
		kind[n] = "inverse"
		all = append(all, n)
	}
	for _, n := range c05NM {
		kind[n] = "nm"
		all = append(all, n)
	}
	for _, n := range all {
		fn := c.MustFn("B1-fork-join", "engine", "Gengine", n)
		if fn == nil {
			continue
		}
		m := c.engModel(fn)
		E := m.errList()
		fos := c.ruleA4("B1-fork-join", fn, isRuleExec, E)
		if len(fos) == 0 {
			c.Check("B1-fork-join", fnName(fn)+"#fan-out", false, fn.Pos(), "no fan-out found in a concurrent model")
		}
		loops := c.ruleA3("B4-sorted-stage", fn)
		c.ruleErrSurface("B4-errors-surface", fn)
		stages := stagesOf(loops, fos)
		selected := len(n) > 15 && n[:15] == "ExecuteSelected"
		switch kind[n] {
		case "mix":
			c.ruleSyncSingles("B2-sync-first-last", fn, fos, E, "first")
			c.ruleFanOutNotSkipped("B2-sync-first-last", fn, fos)
		case "inverse":
			c.ruleSyncSingles("B2-sync-first-last", fn, fos, E, "last")
			c.ruleFanOutNotSkipped("B2-sync-first-last", fn, fos)
		case "nm":
			c.ruleSyncSingles("B2-sync-first-last", fn, fos, E, "")
			// only the two window stages count (the selection loop is not a stage)
			c.ruleWindows("B3-windows", fn, stages, selected)
			c.ruleStageGate("B4-stage-gate", fn, stages, E)
		}
		// B5: every stage draws from a priority-ordered source
		for i, st := range stages {
			if st.ranged == nil {
				continue
			}
			k, what := c.orderSource(fn, st.ranged, st.loop.Head.Instrs[0])
			c.Check("B5-ordered-source", fmtKey(fnName(fn), "stage", i+1), k == "container" || k == "sorted-local", st.pos, "stage %d (%s) takes its rules from %s (%s)", i+1, st.kind, what, k)
		}
	}
	c.Min("B1-fork-join", 100)
	c.Min("B2-sync-first-last", 12)
	c.Min("B3-windows", 24)
	c.Min("B4-stage-gate", 4)
	c.Min("B5-ordered-source", 16)
}

func fmtKey(fn, what string, i int) string { return fn + "#" + what + string(rune('0'+i)) }

// ruleFanOutNotSkipped (B2): the concurrent stage of a mix / inverse-mix model runs whenever there is a
// rule for it. A way from the entry to a return that may carry no error and does not pass the fan-out
// loop is allowed only over an edge on which the rule list is known to hold at most one rule.
func (c *Ctx) ruleFanOutNotSkipped(rule string, fn *ssa.Function, fos []*fanout) {
	x := c.Index(fn)
	for i, fo := range fos {
		if fo.loop == nil || fo.ranged == nil || fo.goStmt.Parent() != fn {
			continue
		}
		base, _, _ := x.sliceInterval(fo.ranged)
		key := fmt.Sprintf("%s#fan%d/not-skipped", fnName(fn), i+1)
		sameList := func(v ssa.Value) (int64, bool) {
			b2, lo2, _ := x.sliceInterval(v)
			if len(lo2.terms) != 0 {
				return 0, false
			}
			if x.sameValue(b2, base) || (x.Cell(b2) != nil && x.Cell(b2) == x.Cell(base)) {
				return lo2.k, true
			}
			return 0, false
		}
		forbidden := map[edgeKey]bool{}
		for _, b := range fn.Blocks {
			if len(b.Instrs) == 0 || len(b.Succs) != 2 {
				continue
			}
			iff, isIf := b.Instrs[len(b.Instrs)-1].(*ssa.If)
			if !isIf {
				continue
			}
			arg, _, thi, _, fhi, ok := x.lenTest(iff.Cond)
			if !ok {
				continue
			}
			off, same := sameList(arg)
			if !same {
				continue
			}
			if thi != lenInf && thi+off <= 1 {
				forbidden[edgeKey{b, 0}] = true
			}
			if fhi != lenInf && fhi+off <= 1 {
				forbidden[edgeKey{b, 1}] = true
			}
		}
		// the stop tag found set ends the execution by design (C14): that edge is a legitimate way round
		var sp *ssa.Parameter
		for _, p := range fn.Params {
			if isNamedPtr(p.Type(), pEngine, "Stag") {
				sp = p
			}
		}
		if sp != nil {
			for _, b := range fn.Blocks {
				if len(b.Instrs) == 0 || len(b.Succs) != 2 {
					continue
				}
				iff, isIf := b.Instrs[len(b.Instrs)-1].(*ssa.If)
				if !isIf {
					continue
				}
				cond, pol := iff.Cond, true
				for {
					u, isU := cond.(*ssa.UnOp)
					if !isU || u.Op != token.NOT {
						break
					}
					cond, pol = u.X, !pol
				}
				if x.tagRead(cond, sp) != nil {
					if pol {
						forbidden[edgeKey{b, 0}] = true
					} else {
						forbidden[edgeKey{b, 1}] = true
					}
				}
			}
		}
		// the rules may also be run another way (a short list executed one after the other): any loop
		// that executes rules counts as the stage
		heads := map[ssa.Instruction]bool{fo.loop.Head.Instrs[0]: true}
		for _, l := range x.Loops(fn) {
			runs := false
			for blk := range l.Blocks {
				for _, i2 := range blk.Instrs {
					if _, isGo := i2.(*ssa.Go); isGo {
						runs = true
					}
					if call, isCall := i2.(*ssa.Call); isCall && isRuleExec(call) {
						runs = true
					}
				}
			}
			if runs && len(l.Head.Instrs) > 0 {
				heads[l.Head.Instrs[0]] = true
			}
		}
		bad, badPos := "", fn.Pos()
		eachInstr(fn, func(in ssa.Instruction) {
			r, isRet := in.(*ssa.Return)
			if !isRet || bad != "" || len(r.Results) != 1 {
				return
			}
			mayBeNil := false
			for _, ev := range x.ValuesAt(r.Results[0], r) {
				if ev.V == nil || isConstNil(ev.V) {
					mayBeNil = true
				}
			}
			if !mayBeNil {
				return
			}
			if _, reach := x.pathExistsFlags(fn, nil, func(i2 ssa.Instruction) bool { return i2 == ssa.Instruction(r) }, forbidden, func(i2 ssa.Instruction) bool { return heads[i2] }); reach {
				bad, badPos = "a return without an error at "+c.pos(r.Pos())+" is reachable without the concurrent stage, over no edge that leaves at most one rule", r.Pos()
			}
		})
		c.Check(rule, key, bad == "", badPos, "%s", orStr(bad, "the concurrent stage runs whenever the list holds a rule for it"))
	}
}
