package main

import (
	"golang.org/x/tools/go/ssa"
)

func init() {
	register("C05", runC05, propMeta{
		Explanation: "Decides, for every goroutine interleaving, the barrier shape of the mix, inverse-mix and N-M models: (B1, rule A4) every go statement starts a literal that executes exactly one rule — the per-iteration copy of the element of the loop that starts it — and reaches Done() once on all paths; one Add(n) precedes the fan-out with n equal, as a symbolic linear form over len() and the parameters, to the number of goroutines started; Wait() lies on every path from the fan-out to any return, later rule execution, later fan-out or read of the error list; appends to the shared error list inside goroutines hold the local mutex; (B2) in mix the first rule runs synchronously before the fan-out over rules[1:], its failure returns before any goroutine starts, in inverse-mix the fan-out covers rules[:len-1], is joined, a collected error returns, and only then rules[len-1] runs; (B3) N-M windows are S[0:n) and S[n:n+m) of the same list, guarded by n>0, m>0, n+m<=len(S) (== len(names) for selected); (B4) sorted stages obey the A3 loop discipline with the function's flag, and after a concurrent first stage `!flag && errors -> return` dominates stage two; (B5) sorted stages range a sorted source; collected errors surface. The argument uses only the WaitGroup contract and program order, so it holds under every schedule. Not decided: fairness, timing.",
		Assumptions: []string{"sync.WaitGroup: Wait returns only after the counter reached zero", "RuleEntity.Execute does not return before the rule finished"},
		Trusted:     commonTrusted,
	})
}

var c05Mix = []string{"ExecuteMixModel", "ExecuteMixModelWithStopTagDirect", "ExecuteSelectedRulesMixModel"}
var c05Inverse = []string{"ExecuteInverseMixModel", "ExecuteSelectedRulesInverseMixModel"}
var c05NM = []string{"ExecuteNSortMConcurrent", "ExecuteNConcurrentMSort", "ExecuteNConcurrentMConcurrent",
	"ExecuteSelectedNSortMConcurrent", "ExecuteSelectedNConcurrentMSort", "ExecuteSelectedNConcurrentMConcurrent"}

func isRuleExec(call *ssa.Call) bool { return calleeIs(call, pBase, "RuleEntity", "Execute") }

func runC05(c *Ctx) {
	kind := map[string]string{}
	var all []string
	for _, n := range c05Mix {
		kind[n] = "mix"
		all = append(all, n)
	}
	for _, n := range c05Inverse {
		kind[n] = "inverse"
		all = append(all, n)
	}
	for _, n := range c05NM {
		kind[n] = "nm"
		all = append(all, n)
	}
	for _, n := range all {
		fn := c.MustFn("B1-fork-join", "engine", "Gengine", n)
		if fn == nil {
			continue
		}
		m := c.engModel(fn)
		E := m.errList()
		fos := c.ruleA4("B1-fork-join", fn, isRuleExec, E)
		if len(fos) == 0 {
			c.Check("B1-fork-join", fnName(fn)+"#fan-out", false, fn.Pos(), "no fan-out found in a concurrent model")
		}
		loops := c.ruleA3("B4-sorted-stage", fn)
		c.ruleErrSurface("B4-errors-surface", fn)
		stages := stagesOf(loops, fos)
		selected := len(n) > 15 && n[:15] == "ExecuteSelected"
		switch kind[n] {
		case "mix":
			c.ruleSyncSingles("B2-sync-first-last", fn, fos, E, "first")
		case "inverse":
			c.ruleSyncSingles("B2-sync-first-last", fn, fos, E, "last")
		case "nm":
			c.ruleSyncSingles("B2-sync-first-last", fn, fos, E, "")
			// only the two window stages count (the selection loop is not a stage)
			c.ruleWindows("B3-windows", fn, stages, selected)
			c.ruleStageGate("B4-stage-gate", fn, stages, E)
		}
		// B5: every stage draws from a priority-ordered source
		for i, st := range stages {
			if st.ranged == nil {
				continue
			}
			k, what := c.orderSource(fn, st.ranged, st.loop.Head.Instrs[0])
			c.Check("B5-ordered-source", fmtKey(fnName(fn), "stage", i+1), k == "container" || k == "sorted-local", st.pos, "stage %d (%s) takes its rules from %s (%s)", i+1, st.kind, what, k)
		}
	}
	c.Min("B1-fork-join", 100)
	c.Min("B2-sync-first-last", 12)
	c.Min("B3-windows", 24)
	c.Min("B4-stage-gate", 4)
	c.Min("B5-ordered-source", 16)
}

func fmtKey(fn, what string, i int) string { return fn + "#" + what + string(rune('0'+i)) }
