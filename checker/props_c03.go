package main

import (
	"fmt"
	"go/constant"
	"go/token"
	"go/types"
	"sort"
	"strings"

	"golang.org/x/tools/go/ssa"
)

func init() {
	register("C03", runC03, propMeta{
		Explanation: "Decides effect confinement and the conversion tables behind faithful access to injected data, for all programs: (I1) in DataContext every read, write or call through the local store is reachable only over the miss edge of a lookup of the same key in the injected table, so an injected name always wins; (I2) reflect mutators (Set, SetInt, SetUint, SetFloat, SetString, SetBool, SetComplex, SetMapIndex) occur only in core.SetAttributeValue, core.SetSingleValue and DataContext.SetMapVarValue, which are reachable only from Assignment.Evaluate and the key binding of ForRangeStmt; reflect Call occurs only in ExecFunc and InvokeFunction; the injected table is written only by Add/PluginLoader/Del — hence reads, comparisons and calls leave injected data untouched; (I3) conversion tables, row by row: ParamsTypeChange converts parameter i against In(i) of the same index, for each of the 12 numeric kinds to exactly that kind, reading the argument with the accessor of its own class tag (36 rows); getNumType maps prefix to tag; GetWantedValue converts to the target kind with the accessor of the target's class (12 rows); SetAttributeValue and SetSingleValue use the setter of the target's kind group, read the source with the accessor of the source's class, and store a signed or float source into an unsigned target only under a `>= 0` test; (I4) Args.Evaluate stores the i-th evaluated argument at index i and GetRawTypeValue returns element 0; (I5) every MapIndex result returned by MapVar.Evaluate is guarded by IsValid() with reflect.Zero of the element type on the other edge. ParamsTypeChange converts every declared parameter: its loop counts from 0 to NumIn() of the same function type. (I8) the field read by GetStructAttributeValue and set by SetAttributeValue is FieldByName(the given name) of the given object, or FieldByIndex with a path found for that name on the object's own reflect.Type (tables keyed by the Type accepted, by a printed name not). Not decided: reflect's own semantics, whether a particular value is representable, user functions. A call node yields the injected call's result: every return of FunctionCall / MethodCall / ThreeLevelCall.Evaluate hands on the first result of DataContext.ExecFunc / ExecMethod / ExecThreeLevel unchanged, so the name is looked up in the injected table on every call. What Assignment.Evaluate hands to SetMapVarValue / SetValue are the name and key fields of its own node, and a compound form reads the current value through that same node (target as compiled). In the three call nodes the only way to a return that avoids the Exec* call is the failure of the argument evaluation (call-always-made). The vector Args.Evaluate hands on is made in that call (make, a literal, or appends to one): ParamsTypeChange converts it in place, so a vector kept on the node would carry one callee's conversions into the next call. After the host function was called every way to a return goes through GetRawTypeValue of its results: the call yields the first result whatever the others are. GetWantedValue converts a number and never refuses it for its size: no error of its own under a comparison of the value's Int / Uint / Float.",
		Assumptions: []string{"reflect accessors/setters behave as documented"},
		Trusted:     commonTrusted,
	})
}

var reflectMutators = map[string]bool{"Set": true, "SetInt": true, "SetUint": true, "SetFloat": true, "SetString": true, "SetBool": true, "SetComplex": true, "SetMapIndex": true, "SetLen": true, "SetCap": true, "SetBytes": true, "SetPointer": true, "SetIterKey": true, "SetIterValue": true, "SetZero": true}

func reflectMethod(in ssa.Instruction) (string, *ssa.CallCommon) {
	cc := callCommon(in)
	if cc == nil || cc.IsInvoke() {
		return "", nil
	}
	f := cc.StaticCallee()
	if f == nil || f.Signature.Recv() == nil || !isReflectValue(derefNamed(f.Signature.Recv().Type())) {
		return "", nil
	}
	return f.Name(), cc
}

func derefNamed(t types.Type) types.Type {
	if p, ok := t.(*types.Pointer); ok {
		return p.Elem()
	}
	return t
}

// reflectKindNames maps the value of reflect.Kind constants to their names.
func (c *Ctx) reflectKindNames() map[int64]string {
	out := map[int64]string{}
	for _, p := range c.Pkgs {
		for _, imp := range p.Types.Imports() {
			if imp.Path() == "reflect" {
				sc := imp.Scope()
				for _, n := range sc.Names() {
					if k, ok := sc.Lookup(n).(*types.Const); ok && types.TypeString(k.Type(), nil) == "reflect.Kind" {
						if v, ok := constant.Int64Val(k.Val()); ok {
							out[v] = n
						}
					}
				}
				return out
			}
		}
	}
	return out
}

func kindClass(name string) string {
	l := strings.ToLower(name)
	switch {
	case strings.HasPrefix(l, "uint"):
		return "uint"
	case strings.HasPrefix(l, "int"):
		return "int"
	case strings.HasPrefix(l, "float"):
		return "float"
	}
	return l
}

var accessorClass = map[string]string{"Int": "int", "Uint": "uint", "Float": "float", "String": "string", "Bool": "bool", "Complex": "complex"}

// caseConsts: the constants of the switch case a block belongs to: walk up the
// dominator tree to a block all of whose predecessors branch to it on `tag == const`.
func (x *FnIndex) caseConsts(b *ssa.BasicBlock) (tag ssa.Value, consts []int64) {
	for cur := b; cur != nil; cur = cur.Idom() {
		if len(cur.Preds) == 0 {
			continue
		}
		var tg ssa.Value
		var ks []int64
		all := true
		for _, p := range cur.Preds {
			to := cur
			// an empty block on the way (the `true` arm of a short-circuit `a == K1 || a == K2` that was threaded) is looked through
			for len(p.Preds) == 1 && len(p.Succs) == 1 && onlyJump(p) {
				to, p = p, p.Preds[0]
			}
			iff, ok := p.Instrs[len(p.Instrs)-1].(*ssa.If)
			if !ok || p.Succs[0] != to || p.Succs[1] == to {
				all = false
				break
			}
			bo, ok := iff.Cond.(*ssa.BinOp)
			if !ok || bo.Op != token.EQL {
				all = false
				break
			}
			k, ok := constInt(bo.Y)
			if !ok {
				all = false
				break
			}
			t := x.Origin(bo.X)
			if tg == nil {
				tg = t
			} else if tg != t {
				all = false
				break
			}
			ks = append(ks, k)
		}
		if all && tg != nil {
			if kc, ok := tg.(*ssa.Call); ok {
				name := ""
				if kc.Call.IsInvoke() {
					name = kc.Call.Method.Name()
				} else if cal := kc.Call.StaticCallee(); cal != nil {
					name = cal.Name()
				}
				if name == "Kind" {
					return tg, ks
				}
			}
		}
	}
	return nil, nil
}

// onlyJump: the block does nothing but go on (debug references apart).
func onlyJump(b *ssa.BasicBlock) bool {
	for _, in := range b.Instrs {
		switch in.(type) {
		case *ssa.Jump, *ssa.DebugRef:
		default:
			return false
		}
	}
	return true
}

// accessorOf: v is [T](recv.Acc()) — returns accessor name, receiver, the converted-to type.
func (x *FnIndex) accessorOf(v ssa.Value) (acc string, recv ssa.Value, typ types.Type) {
	v = x.Unwrap(v)
	typ = v.Type()
	if cv, ok := v.(*ssa.Convert); ok {
		v = x.Origin(cv.X)
	}
	call, ok := v.(*ssa.Call)
	if !ok {
		return "", nil, typ
	}
	name, cc := reflectMethod(call)
	if cc == nil {
		return "", nil, typ
	}
	return name, cc.Args[0], typ
}

func basicName(t types.Type) string {
	if b, ok := t.Underlying().(*types.Basic); ok {
		return b.Name()
	}
	return ""
}

func runC03(c *Ctx) {
	c.ruleI1("I1-injected-first")
	c.Min("I1-injected-first", 9)
	// ---- I2
	allowedMut := map[string]bool{"SetAttributeValue": true, "SetSingleValue": true, "DataContext.SetMapVarValue": true}
	nm := 0
	for _, f := range c.AllFns {
		if f.Pkg == nil || f.Pkg.Pkg.Path() == pParser {
			continue
		}
		k := 0
		eachInstr(f, func(in ssa.Instruction) {
			name, cc := reflectMethod(in)
			if cc == nil {
				return
			}
			if reflectMutators[name] {
				nm++
				k++
				c.Check("I2-effects-confined", fmt.Sprintf("%s#%s%d", fnName(rootOf(f)), name, k), allowedMut[fnName(rootOf(f))], in.Pos(), "reflect.Value.%s in %s: injected data may be modified only by the three assignment back ends (a read, comparison or call must leave it untouched)", name, fnName(rootOf(f)))
			}
			if name == "Call" || name == "CallSlice" {
				ok := fnName(rootOf(f)) == "DataContext.ExecFunc" || fnName(rootOf(f)) == "InvokeFunction"
				c.Check("I2-calls-confined", fmt.Sprintf("%s#%s", fnName(rootOf(f)), name), ok, in.Pos(), "reflect Call in %s: host functions may be invoked only by the call back ends", fnName(rootOf(f)))
			}
		})
	}
	c.Min("I2-effects-confined", 15)
	callers := c.callersOf
	wantCallers := map[[3]string][]string{
		{pCore, "", "SetAttributeValue"}:            {"DataContext.SetValue"},
		{pCore, "", "SetSingleValue"}:               {"DataContext.SetValue"},
		{pContext, "DataContext", "SetValue"}:       {"Assignment.Evaluate", "ForRangeStmt.Evaluate"},
		{pContext, "DataContext", "SetMapVarValue"}: {"Assignment.Evaluate"},
	}
	for k, want := range wantCallers {
		got := callers(k[0], k[1], k[2])
		c.Check("I2-writers-reachable-only-from-assignment", k[2], strings.Join(got, ",") == strings.Join(want, ","), 0, "%s is called from %v (want exactly %v)", k[2], got, want)
	}
	// injected table writers
	for _, f := range c.AllFns {
		x := c.Index(f)
		eachInstr(f, func(in ssa.Instruction) {
			var mv ssa.Value
			switch t := in.(type) {
			case *ssa.MapUpdate:
				mv = t.Map
			case *ssa.Call:
				if args, ok := builtinCall(t, "delete"); ok {
					mv = args[0]
				}
			}
			if mv == nil {
				return
			}
			if _, isBase := x.isFieldLoad(mv, "DataContext", "base"); isBase {
				ok := map[string]bool{"DataContext.Add": true, "DataContext.PluginLoader": true, "DataContext.Del": true}[fnName(f)]
				c.Check("I2-injected-table-writers", fnName(f), ok, in.Pos(), "the injected table is written in %s", fnName(f))
			}
		})
	}
	c.ruleI3(c.reflectKindNames())
	// ---- I4
	if f := c.MustFn("I4-positional", "internal/base", "Args", "Evaluate"); f != nil {
		x := c.Index(f)
		ok := false
		eachInstr(f, func(in ssa.Instruction) {
			st, isSt := in.(*ssa.Store)
			if !isSt {
				return
			}
			ia, isIA := st.Addr.(*ssa.IndexAddr)
			if !isIA || !isReflectValue(derefNamed(ia.Type())) {
				return
			}
			ex, isEx := x.Origin(st.Val).(*ssa.Extract)
			if !isEx || ex.Index != 0 {
				return
			}
			call, isCall := ex.Tuple.(*ssa.Call)
			if !isCall || !calleeIs(call, pBase, "Arg", "Evaluate") {
				return
			}
			// the evaluated arg is ArgList[i] and the store index is the same range counter
			u, isU := x.Origin(call.Call.Args[0]).(*ssa.UnOp)
			if !isU {
				return
			}
			src, isSrc := u.X.(*ssa.IndexAddr)
			if !isSrc {
				return
			}
			if _, is := x.isFieldLoad(src.X, "Args", "ArgList"); !is {
				return
			}
			ic, sc := x.Cell(ia.Index), x.Cell(src.Index)
			// `for i, v := range list`: i is a copy of the range counter taken in the same iteration
			same := ic != nil && sc != nil && (ic == sc || x.sameValue(ia.Index, src.Index))
			if !same && ic != nil && sc != nil {
				if len(x.stores[ic]) == 1 && x.Cell(x.stores[ic][0].Val) == sc {
					same = true
				}
			}
			if same {
				ok = true
			}
		})
		c.Check("I4-positional", "Args.Evaluate#ith-argument-at-index-i", ok, f.Pos(), "the value of ArgList[i] must be stored at index i of the argument vector")
		// length
		okLen := false
		eachInstr(f, func(in ssa.Instruction) {
			if ms, isMS := in.(*ssa.MakeSlice); isMS {
				if args, isLen := builtinCall(x.Origin(ms.Len), "len"); isLen {
					if _, is := x.isFieldLoad(args[0], "Args", "ArgList"); is {
						okLen = true
					}
				}
			}
		})
		c.Check("I4-positional", "Args.Evaluate#vector-length", okLen, f.Pos(), "the argument vector must have len(ArgList) elements")
		// the vector handed to the caller is made in this call: ParamsTypeChange converts its elements in
		// place, so a vector kept by the node (or shared between calls) carries the values converted
		// for one callee into the next call
		okFresh, whyFresh, nRet := true, "", 0
		eachInstr(f, func(in ssa.Instruction) {
			r, isR := in.(*ssa.Return)
			if !isR || len(r.Results) != 2 {
				return
			}
			nRet++
			for _, pv := range x.PossibleValues(r.Results[0]) {
				if !madeInThisCall(x, pv.V, 0) {
					okFresh, whyFresh = false, x.Describe(pv.V)
				}
			}
		})
		c.Check("I4-positional", "Args.Evaluate#vector-made-for-this-call", okFresh && nRet > 0, f.Pos(), "the argument vector returned must be a slice made in this call (it is converted in place for the callee): %s is returned", orStr(whyFresh, "nothing"))
	}
	if f := c.MustFn("I4-positional", "internal/core", "", "GetRawTypeValue"); f != nil {
		x := c.Index(f)
		ok := false
		eachInstr(f, func(in ssa.Instruction) {
			if r, isR := in.(*ssa.Return); isR {
				for _, pv := range x.PossibleValues(r.Results[0]) {
					if u, isU := pv.V.(*ssa.UnOp); isU {
						if ia, isIA := u.X.(*ssa.IndexAddr); isIA {
							if k, isK := constInt(ia.Index); isK && k == 0 && x.Origin(ia.X) == ssa.Value(f.Params[0]) {
								ok = true
							}
						}
					}
				}
			}
		})
		c.Check("I4-positional", "GetRawTypeValue#first-result", ok, f.Pos(), "a call yields the first result of the host function")
	}
	// the call back ends pass parameters and results through these two
	for _, spec := range [][3]string{{"context", "DataContext", "ExecFunc"}, {"internal/core", "", "InvokeFunction"}} {
		f := c.MustFn("I4-positional", spec[0], spec[1], spec[2])
		if f == nil {
			continue
		}
		x := c.Index(f)
		k := 0
		eachInstr(f, func(in ssa.Instruction) {
			name, cc := reflectMethod(in)
			if cc == nil || name != "Call" {
				return
			}
			k++
			// args = ParamsTypeChange(fn, parameters); result through GetRawTypeValue
			okA := false
			if pc, isCall := x.Origin(cc.Args[1]).(*ssa.Call); isCall && calleeIs(pc, pCore, "", "ParamsTypeChange") {
				if _, isP := x.Origin(pc.Call.Args[1]).(*ssa.Parameter); isP && x.sameValue(pc.Call.Args[0], cc.Args[0]) {
					okA = true
				}
			}
			okR := false
			call := in.(*ssa.Call)
			for _, ref := range *call.Referrers() {
				if st, isSt := ref.(*ssa.Store); isSt {
					_ = st
				}
			}
			eachInstr(f, func(i2 ssa.Instruction) {
				if rc, isCall := i2.(*ssa.Call); isCall && calleeIs(rc, pCore, "", "GetRawTypeValue") && x.Origin(rc.Call.Args[0]) == ssa.Value(call) {
					okR = true
				}
			})
			c.Check("I4-positional", fmt.Sprintf("%s#call%d", fnName(f), k), okA && okR, in.Pos(), "the host function must be called with the caller's arguments coerced by ParamsTypeChange against that same function, and its results reduced by GetRawTypeValue")
			// ... on every way from the call to a return: what the caller gets is the first result,
			// whatever the other results are (a trailing error of the host function is not the call's error)
			{
				var reduce ssa.Instruction
				eachInstr(f, func(i2 ssa.Instruction) {
					if rc, isCall := i2.(*ssa.Call); isCall && calleeIs(rc, pCore, "", "GetRawTypeValue") && x.Origin(rc.Call.Args[0]) == ssa.Value(call) {
						reduce = i2
					}
				})
				at, round := pathExists(f, in, isReturn, func(i2 ssa.Instruction) bool { return i2 == reduce })
				pos := in.Pos()
				if round && at.Pos().IsValid() {
					pos = at.Pos()
				}
				c.Check("I4-positional", fmt.Sprintf("%s#call%d/always-reduced", fnName(f), k), reduce != nil && !round, pos, "after the host function was called a return is reached without its results having gone through GetRawTypeValue: the call must yield the first result on every way")
			}
			// the method called is the one of that name on that object, found anew on every
			// call: MethodByName(name) of the object given (a position remembered from another
			// call or another type may be another method)
			if spec[2] == "InvokeFunction" && len(f.Params) >= 2 {
				okM := true
				why := ""
				for _, pv := range x.ValuesAt(cc.Args[0], in) {
					if pv.V == nil || isZeroReflectValue(pv.V) {
						// "not found": no function; acceptable where the call is made only under IsValid()
						valid := false
						for _, g := range x.GuardsOf(in.Block()) {
							gc, pol := g.Cond, g.Pol
							for {
								u, isU := gc.(*ssa.UnOp)
								if !isU || u.Op != token.NOT {
									break
								}
								gc, pol = u.X, !pol
							}
							if call, isC := x.Origin(gc).(*ssa.Call); isC && pol {
								if nm2, cc2 := reflectMethod(call); cc2 != nil && nm2 == "IsValid" && x.Cell(cc2.Args[0]) != nil && x.Cell(cc2.Args[0]) == x.Cell(cc.Args[0]) {
									valid = true
								}
							}
						}
						if !valid {
							okM, why = false, "no function (the zero reflect.Value) without an IsValid() test before the call"
						}
						continue
					}
					mc, isCall := x.Origin(pv.V).(*ssa.Call)
					if !isCall {
						okM, why = false, x.Describe(pv.V)
						continue
					}
					nm, mcc := reflectMethod(mc)
					// Method(i) of the given object with i found for the given name on the object's own type:
					// read out of a table keyed by the reflect.Type (a sync.Map, a map under a lock), or
					// Type.MethodByName(name).Index
					if mcc != nil && nm == "Method" && len(mcc.Args) == 2 && methodIndexForName(x, mcc.Args[1], mc, f.Params[1], 0) {
						root := x.Origin(mcc.Args[0])
						if root != ssa.Value(f.Params[0]) {
							okM, why = false, "a method of "+x.Describe(mcc.Args[0])
						}
						continue
					}
					if mcc == nil || nm != "MethodByName" || len(mcc.Args) < 2 || x.Origin(mcc.Args[1]) != ssa.Value(f.Params[1]) {
						okM, why = false, x.Describe(pv.V)
						continue
					}
					root := x.Origin(mcc.Args[0])
					if ec, isE := root.(*ssa.Call); isE {
						if n2, c2 := reflectMethod(ec); c2 != nil && (n2 == "Elem" || n2 == "Addr") {
							root = x.Origin(c2.Args[0])
						}
					}
					if root != ssa.Value(f.Params[0]) {
						okM, why = false, "a method of "+x.Describe(mcc.Args[0])
					}
				}
				c.Check("I4-positional", fmt.Sprintf("%s#call%d/method-by-name", fnName(f), k), okM, in.Pos(), "the function called must be MethodByName(the given name) of the given object: %s", orStr(why, "ok"))
			}
		})
		c.Check("I4-positional", fnName(f)+"#calls-the-host-function", k > 0, f.Pos(), "%s makes %d reflect call(s) of the host function", fnName(f), k)
	}
	c.Min("I4-positional", 7)
	// an argument is handed on as it was read: Arg.Evaluate returns the value of the one evaluation that
	// belongs to the argument's form (the variable through GetValue, a nested node through its Evaluate),
	// not something derived from it -- a pointer-injected number dereferenced on the way reaches the callee
	// as a copy, and what the callee writes through it is lost
	isNodeEval := func(call *ssa.Call) bool {
		cal := call.Call.StaticCallee()
		return cal != nil && cal.Name() == "Evaluate" && cal.Pkg != nil && cal.Pkg.Pkg.Path() == pBase
	}
	if f := c.MustFn("I4-positional", "internal/base", "Arg", "Evaluate"); f != nil {
		c.ruleValueAsRead("I4-positional", "Arg.Evaluate#value-as-read", f, func(call *ssa.Call) bool {
			return calleeIs(call, pContext, "DataContext", "GetValue") || isNodeEval(call)
		}, 7, "an argument must be the value its evaluation yielded, unchanged")
	}
	// a call node yields what the data context's call of the injected function yielded: the name is looked
	// up in the injected table on every call (a name that is injected always refers to the injected
	// object, also after the host replaced or removed it), nothing is answered by the node itself
	for _, spec := range [][2]string{{"FunctionCall", "ExecFunc"}, {"MethodCall", "ExecMethod"}, {"ThreeLevelCall", "ExecThreeLevel"}} {
		if f := c.MustFn("I4-positional", "internal/base", spec[0], "Evaluate"); f != nil {
			exec := spec[1]
			c.ruleValueAsRead("I4-positional", spec[0]+".Evaluate#result-of-the-injected-call", f, func(call *ssa.Call) bool {
				return calleeIs(call, pContext, "DataContext", exec)
			}, 1, "a call node must yield the first result of DataContext."+exec+" for its own name, unchanged")
			// ... and the call is always made: the only way to a return that avoids the Exec* call is the
			// failure of the argument evaluation. What the receiver or the function is -- a nil pointer
			// with nil-safe methods, say -- is the host's business, not the node's
			x := c.Index(f)
			argFail := map[edgeKey]bool{}
			for _, b := range f.Blocks {
				iff, isIf := b.Instrs[len(b.Instrs)-1].(*ssa.If)
				if !isIf {
					continue
				}
				v, neq, isNil := nilCheck(iff.Cond)
				if !isNil {
					continue
				}
				ex, isEx := x.Origin(v).(*ssa.Extract)
				if !isEx || ex.Index != 1 {
					continue
				}
				if call, isCall := ex.Tuple.(*ssa.Call); isCall && calleeIs(call, pBase, "Args", "Evaluate") {
					if neq {
						argFail[edgeKey{b, 0}] = true
					} else {
						argFail[edgeKey{b, 1}] = true
					}
				}
			}
			isExec := func(in ssa.Instruction) bool {
				call, ok := in.(*ssa.Call)
				return ok && calleeIs(call, pContext, "DataContext", exec)
			}
			at, refused := pathExistsEB(f, nil, isReturn, argFail, isExec)
			pos := f.Pos()
			if refused && at != nil {
				pos = at.Pos()
			}
			c.Check("I4-positional", spec[0]+".Evaluate#call-always-made", !refused, pos, "%s.Evaluate can return without having called DataContext.%s although its arguments were evaluated: the node refuses a call the host's object might accept", spec[0], exec)
		}
	}
	// ---- I6: the element addressed is the one named by the key, the value stored is the one assigned
	c.ruleI6("I6-key-and-value-reach-access")
	// ... and the target the data context is given is the one the assignment was compiled with: the name of
	// the variable, or name and key (literal string, variable, literal integer) of the element, read from
	// the node's own fields -- a target rebuilt on the way (a variable key replaced by the value it holds
	// now, through fields in which "" means "no key") addresses another element for some keys
	if f := c.MustFn("I6-key-and-value-reach-access", "internal/base", "Assignment", "Evaluate"); f != nil {
		x := c.Index(f)
		recv := ssa.Value(f.Params[0])
		ownMapVar := func(v ssa.Value) bool {
			b, ok := x.isFieldLoad(v, "Assignment", "MapVar")
			return ok && x.Origin(b) == recv
		}
		nSet := 0
		eachInstr(f, func(in ssa.Instruction) {
			call, ok := in.(*ssa.Call)
			if !ok {
				return
			}
			switch {
			case calleeIs(call, pContext, "DataContext", "SetMapVarValue") && len(call.Call.Args) == 7:
				nSet++
				okT := true
				for i, fld := range []string{"Name", "Strkey", "Varkey", "Intkey"} {
					b, is := x.isFieldLoad(call.Call.Args[2+i], "MapVar", fld)
					if !is || !ownMapVar(b) {
						okT = false
					}
				}
				c.Check("I6-key-and-value-reach-access", fmt.Sprintf("Assignment.Evaluate#element-target-as-compiled%d", nSet), okT, in.Pos(), "SetMapVarValue must be given Name, Strkey, Varkey and Intkey of the assignment's own MapVar node")
			case calleeIs(call, pContext, "DataContext", "SetValue") && len(call.Call.Args) == 4:
				nSet++
				b, is := x.isFieldLoad(call.Call.Args[2], "Assignment", "Variable")
				c.Check("I6-key-and-value-reach-access", fmt.Sprintf("Assignment.Evaluate#variable-target-as-compiled%d", nSet), is && x.Origin(b) == recv, in.Pos(), "SetValue must be given the assignment's own Variable")
			case calleeIs(call, pBase, "MapVar", "Evaluate"):
				c.Check("I6-key-and-value-reach-access", "Assignment.Evaluate#compound-reads-own-element", ownMapVar(call.Call.Args[0]), in.Pos(), "the current value of a compound assignment must be read through the assignment's own MapVar node")
			}
		})
		c.Check("I6-key-and-value-reach-access", "Assignment.Evaluate#stores", nSet >= 2, f.Pos(), "Assignment.Evaluate stores through SetValue and SetMapVarValue (%d store call(s) found)", nSet)
	}
	c.ruleI7("I7-dotted-name-plumbing")
	c.ruleI8("I8-field-by-name")
	// ---- I5
	if f := c.MustFn("I5-missing-key-zero", "internal/base", "MapVar", "Evaluate"); f != nil {
		x := c.Index(f)
		k := 0
		eachInstr(f, func(in ssa.Instruction) {
			name, cc := reflectMethod(in)
			if cc == nil || name != "MapIndex" {
				return
			}
			k++
			mi := in.(*ssa.Call)
			key := fmt.Sprintf("MapVar.Evaluate#MapIndex%d", k)
			// IsValid test on this result
			var test *ssa.If
			eachInstr(f, func(i2 ssa.Instruction) {
				if iff, isIf := i2.(*ssa.If); isIf {
					if vc, isCall := x.Origin(iff.Cond).(*ssa.Call); isCall {
						if n2, c2 := reflectMethod(vc); c2 != nil && n2 == "IsValid" && x.Origin(c2.Args[0]) == ssa.Value(mi) {
							test = iff
						}
					}
				}
			})
			if test == nil {
				c.Check("I5-missing-key-zero", key, false, in.Pos(), "a map element is returned without testing IsValid(): a missing key yields the invalid Value instead of the zero value")
				return
			}
			// every return of mi is under the true edge; the false edge returns reflect.Zero(elem type of the same map)
			okT, okF := true, false
			zeroWhy := ""
			eachInstr(f, func(i2 ssa.Instruction) {
				r, isR := i2.(*ssa.Return)
				if !isR {
					return
				}
				for _, pv := range x.PossibleValues(r.Results[0]) {
					// where the value is chosen: the return itself, or the assignment of the
					// result variable it is returned through
					at := r.Block()
					if pv.Store != nil && !pv.Outside {
						at = pv.Store.Block()
					}
					if pv.V == ssa.Value(mi) && !x.edgeDominated(test.Block(), 0)[at] {
						okT = false
					}
					if zc, isCall := pv.V.(*ssa.Call); isCall && fnIs(zc.Call.StaticCallee(), "reflect", "", "Zero") && x.edgeDominated(test.Block(), 1)[at] {
						// the zero value must be of the map's element type: Type() of the root value followed by
						// one Elem() more than the Elem() calls between the root value and the MapIndex receiver
						vElems, vRoot := x.elemChain(cc.Args[0], "value")
						tElems, tRoot := x.elemChain(zc.Call.Args[0], "type")
						if vRoot != nil && vRoot == tRoot && tElems == vElems+1 {
							okF = true
						} else {
							zeroWhy = fmt.Sprintf("reflect.Zero is given the type after %d Elem() call(s) but the map was reached after %d Elem() call(s) on the value: not the map's element type", tElems, vElems)
						}
					}
				}
			})
			c.Check("I5-missing-key-zero", key, okT && okF, in.Pos(), "the element is returned only when IsValid(); otherwise reflect.Zero of the map's element type %s", zeroWhy)
		})
		c.Min("I5-missing-key-zero", 1)
	}
}

func (c *Ctx) ruleI3(kinds map[int64]string) {
	_ = map[string]bool{}
	// getNumType
	tagOf := map[string]int64{}
	numericKinds := []string{"int", "int8", "int16", "int32", "int64", "uint", "uint8", "uint16", "uint32", "uint64", "float32", "float64"}
	classOfKind := func(k string) string {
		switch {
		case strings.HasPrefix(k, "uint"):
			return "uint"
		case strings.HasPrefix(k, "int"):
			return "int"
		}
		return "float"
	}
	tagOfKind := map[string]int64{}
	if f := c.MustFn("I3-getNumType", "internal/core", "", "getNumType"); f != nil {
		x := c.Index(f)
		// the tag returned for each numeric kind, whichever way the kind is classified (name
		// prefixes, a switch over reflect.Kind, a class helper)
		consistent := true
		for _, k := range numericKinds {
			env := &kenv{x: x, kindOf: map[ssa.Value]string{ssa.Value(f.Params[0]): k}}
			var tags []int64
			for _, r := range env.explore(f, kinds, nil) {
				e2 := &kenv{x: x, kindOf: env.kindOf}
				_ = e2
				if kc, isK := constInt(x.Origin(r.ret.Results[0])); isK {
					tags = append(tags, kc)
				} else {
					consistent = false
				}
			}
			if len(tags) != 1 {
				consistent = false
				continue
			}
			tagOfKind[k] = tags[0]
			cls := classOfKind(k)
			if t, seen := tagOf[cls]; seen && t != tags[0] {
				consistent = false
			}
			tagOf[cls] = tags[0]
		}
		ok := consistent && len(tagOf) == 3 && tagOf["int"] != tagOf["uint"] && tagOf["uint"] != tagOf["float"] && tagOf["int"] != tagOf["float"]
		c.Check("I3-getNumType", "getNumType#prefix-to-tag", ok, f.Pos(), "the signed, unsigned and float kinds must map to three distinct tags, all kinds of a class to the same one: %v", tagOf)
	}
	classOfTag := map[int64]string{}
	for p, t := range tagOf {
		classOfTag[t] = p
	}
	// ParamsTypeChange: for every pair (kind of parameter i, kind of argument i) the function is
	// explored with those two kinds as constants; exactly one conversion `params[i] =
	// reflect.ValueOf(T(params[i].Acc()))` is reached, T is the parameter's kind and Acc the
	// accessor of the argument's class — however the table is nested, split into helpers or
	// keyed (kind constants, case lists, a default, the tag of getNumType, a class helper)
	if f := c.MustFn("I3-ParamsTypeChange", "internal/core", "", "ParamsTypeChange"); f != nil {
		x := c.Index(f)
		params := ssa.Value(f.Params[1])
		// the conversion sites: reflect.ValueOf(..) calls whose result can be stored into params[i]
		type site struct {
			vo  *ssa.Call
			idx ssa.Value
		}
		var sites []site
		seenSite := map[*ssa.Call]bool{}
		eachInstr(f, func(in ssa.Instruction) {
			st, ok := in.(*ssa.Store)
			if !ok {
				return
			}
			ia, ok := st.Addr.(*ssa.IndexAddr)
			if !ok || x.Origin(ia.X) != params {
				return
			}
			for _, pv := range x.PossibleValues(st.Val) {
				if pv.V == nil {
					continue
				}
				if vo, isCall := x.Origin(pv.V).(*ssa.Call); isCall && fnIs(vo.Call.StaticCallee(), "reflect", "", "ValueOf") && !seenSite[vo] {
					if acc, _, _ := x.accessorOf(vo.Call.Args[0]); acc != "" {
						seenSite[vo] = true
						sites = append(sites, site{vo, ia.Index})
					}
				}
			}
		})
		// the kind of parameter i: Kind() of tf.In(i)
		var inCalls []*ssa.Call
		eachInstr(f, func(in ssa.Instruction) {
			if call, ok := in.(*ssa.Call); ok && call.Call.IsInvoke() && call.Call.Method.Name() == "In" && len(call.Call.Args) == 1 {
				inCalls = append(inCalls, call)
			}
		})
		rows := map[string]bool{}
		type rowRes struct {
			ok  bool
			why string
			pos token.Pos
		}
		res := map[string]*rowRes{}
		var keys []string
		for _, T := range numericKinds {
			for _, S := range numericKinds {
				env := &kenv{x: x, kindOf: map[ssa.Value]string{params: S}}
				for _, ic := range inCalls {
					env.kindOf[ic] = T
				}
				SS := S
				env.callInt = func(call *ssa.Call) (int64, bool) {
					if !calleeIs(call, pCore, "", "getNumType") || len(call.Call.Args) != 1 || env.rootValue(call.Call.Args[0]) == nil {
						return 0, false
					}
					t, ok := tagOfKind[SS]
					return t, ok
				}
				env.explore(f, kinds, nil)
				kname := strings.ToUpper(T[:1]) + T[1:]
				key := fmt.Sprintf("ParamsTypeChange#%s<-%s", kname, classOfKind(S))
				r := res[key]
				if r == nil {
					r = &rowRes{ok: true, pos: f.Pos()}
					res[key] = r
					keys = append(keys, key)
				}
				var hit []site
				for _, st := range sites {
					if env.visited[st.vo.Block()] {
						hit = append(hit, st)
					}
				}
				if len(hit) != 1 {
					r.ok, r.why = false, fmt.Sprintf("argument kind %s: %d conversions can be reached (want exactly one)", S, len(hit))
					continue
				}
				rows[key] = true
				h := hit[0]
				r.pos = h.vo.Pos()
				acc, recv, typ := x.accessorOf(h.vo.Call.Args[0])
				if basicName(typ) != T {
					r.ok, r.why = false, fmt.Sprintf("argument kind %s: converts to %s", S, basicName(typ))
				}
				if accessorClass[acc] != classOfKind(S) {
					r.ok, r.why = false, fmt.Sprintf("argument kind %s is read with .%s()", S, acc)
				}
				// the value read is parameter i itself, and the kind tested is In(i) of the same i
				okIdx := false
				if ru, isU := x.Origin(recv).(*ssa.UnOp); isU {
					if ria, isIA := ru.X.(*ssa.IndexAddr); isIA && x.sameValue(ria.Index, h.idx) && x.Origin(ria.X) == params {
						okIdx = true
					}
				}
				for _, ic := range inCalls {
					if !x.sameValue(ic.Call.Args[0], h.idx) {
						okIdx = false
					}
				}
				if !okIdx {
					r.ok, r.why = false, "the argument read, the position stored and the parameter whose kind is tested are not the same i"
				}
			}
		}
		for _, key := range keys {
			r := res[key]
			c.Check("I3-ParamsTypeChange", key, r.ok, r.pos, "%s", orStr(r.why, "converted to the parameter's kind with the accessor of the argument's class, for every argument kind of the class"))
		}
		c.Check("I3-ParamsTypeChange", "rows", len(rows) == 36 && len(inCalls) > 0, f.Pos(), "%d of the 36 (parameter kind x source class) rows found", len(rows))
		// every declared parameter is converted: the loop counts from 0 up to NumIn() of the function's type
		okAll, whyAll := len(inCalls) > 0, "no In(i) call found"
		for _, ic := range inCalls {
			okAll, whyAll = false, "the index of In(i) is not the counter of a loop that counts from 0 to NumIn()"
			cell := x.directCell(x.lastLoad(ic.Call.Args[0]))
			if cell == nil {
				break
			}
			cl := x.countedLoop(cell)
			if cl == nil || cl.start != 0 || cl.boundAdd != 0 || !cl.loop.Blocks[ic.Block()] {
				break
			}
			bc, isCall := x.Origin(cl.bound).(*ssa.Call)
			if !isCall || !bc.Call.IsInvoke() || bc.Call.Method.Name() != "NumIn" || !x.sameValue(bc.Call.Value, ic.Call.Value) {
				whyAll = "the loop over the parameters is bounded by " + x.Describe(cl.bound) + ", not by NumIn() of the same function type"
				break
			}
			okAll, whyAll = true, ""
		}
		c.Check("I3-ParamsTypeChange", "every-declared-parameter", okAll, f.Pos(), "%s", orStr(whyAll, "parameters 0 .. NumIn()-1 are all converted"))
	}
	// GetWantedValue
	if f := c.MustFn("I3-GetWantedValue", "internal/core", "", "GetWantedValue"); f != nil && len(f.Params) >= 2 {
		x := c.Index(f)
		// the conversion sites: reflect.ValueOf(T(v.Accessor()))
		var sites []*ssa.Call
		eachInstr(f, func(in ssa.Instruction) {
			if vo, isCall := in.(*ssa.Call); isCall && fnIs(vo.Call.StaticCallee(), "reflect", "", "ValueOf") {
				if acc, _, _ := x.accessorOf(vo.Call.Args[0]); acc != "" {
					sites = append(sites, vo)
				}
			}
		})
		rows := 0
		missing := ""
		// explored per (target kind, source kind): which conversion is reached, if any
		for _, T := range numericKinds {
			kname := strings.ToUpper(T[:1]) + T[1:]
			key := "GetWantedValue#" + kname
			ok2, why := true, ""
			converted, passed := 0, 0
			var pos token.Pos = f.Pos()
			for _, S := range numericKinds {
				if S == T {
					continue
				}
				env := &kenv{x: x, kindOf: map[ssa.Value]string{f.Params[0]: S, f.Params[1]: T}}
				env.explore(f, kinds, nil)
				var hit []*ssa.Call
				for _, vo := range sites {
					if env.visited[vo.Block()] {
						hit = append(hit, vo)
					}
				}
				switch len(hit) {
				case 0:
					passed++
				case 1:
					converted++
					vo := hit[0]
					pos = vo.Pos()
					acc, recv, typ := x.accessorOf(vo.Call.Args[0])
					if basicName(typ) != T {
						ok2, why = false, "converts to "+basicName(typ)
					}
					if accessorClass[acc] != kindClass(kname) {
						ok2, why = false, "reads the value with ."+acc+"()"
					}
					if x.Origin(recv) != ssa.Value(f.Params[0]) {
						ok2, why = false, "reads another value"
					}
				default:
					ok2, why = false, fmt.Sprintf("%d conversions can be reached for a %s value", len(hit), S)
				}
			}
			wide := T == "int64" || T == "uint64" || T == "float64"
			switch {
			case converted > 0 && passed > 0:
				ok2, why = false, "converted for some source kinds and passed on unconverted for others"
			case converted == 0 && !wide:
				missing += " " + kname
				continue
			case converted == 0:
				// a 64-bit target may take the value as it is
				continue
			}
			rows++
			c.Check("I3-GetWantedValue", key, ok2, pos, "target kind %s: %s", kname, orStr(why, "converted to that kind with the accessor of its class"))
		}
		c.Check("I3-GetWantedValue", "rows", missing == "", f.Pos(), "%d numeric target kinds have a row; without one:%s", rows, orStr(missing, " none"))
		// a number is converted, never refused for its size: no return of an error of the function's own
		// stands under a comparison of the value's own number (Int / Uint / Float of the first parameter)
		refused, refPos := "", f.Pos()
		eachInstr(f, func(in ssa.Instruction) {
			r, isR := in.(*ssa.Return)
			if !isR || len(r.Results) != 2 || refused != "" {
				return
			}
			own := false
			for _, pv := range x.ValuesAt(r.Results[1], r) {
				if pv.V != nil && isNewError(pv.V) {
					own = true
				}
			}
			if !own {
				return
			}
			isNumberOf := func(v ssa.Value) bool {
				call, isCall := x.Origin(v).(*ssa.Call)
				if !isCall {
					return false
				}
				nm, cc := reflectMethod(call)
				return cc != nil && (nm == "Int" || nm == "Uint" || nm == "Float") && x.Origin(cc.Args[0]) == ssa.Value(f.Params[0])
			}
			for _, g := range x.GuardsOf(r.Block()) {
				bo, isBo := g.Cond.(*ssa.BinOp)
				if !isBo {
					continue
				}
				switch bo.Op {
				case token.LSS, token.LEQ, token.GTR, token.GEQ:
					if isNumberOf(bo.X) || isNumberOf(bo.Y) {
						refused, refPos = x.Describe(g.Cond), r.Pos()
					}
				}
			}
		})
		c.Check("I3-GetWantedValue", "never-refused-for-its-size", refused == "", refPos, "GetWantedValue returns an error of its own under the comparison %s of the value's number: a number is converted to the target's width, not refused", refused)
	}
	// setters
	setterGroup := map[string]string{"SetInt": "int", "SetUint": "uint", "SetFloat": "float", "SetString": "string", "SetBool": "bool"}
	for _, fname := range []string{"SetAttributeValue", "SetSingleValue"} {
		f := c.MustFn("I3-setters", "internal/core", "", fname)
		if f == nil {
			continue
		}
		x := c.Index(f)
		k := 0
		reachS := c.srcClassesAt(f, ssa.Value(f.Params[2]), kinds, tagOfKind)
		eachInstr(f, func(in ssa.Instruction) {
			name, cc := reflectMethod(in)
			if cc == nil || setterGroup[name] == "" {
				return
			}
			k++
			key := fmt.Sprintf("%s#%s%d", fname, name, k)
			_, ks := x.caseConsts(in.Block())
			okGroup := len(ks) > 0
			for _, kk := range ks {
				if kindClass(kinds[kk]) != setterGroup[name] {
					okGroup = false
				}
			}
			acc, _, _ := x.accessorOf(cc.Args[1])
			srcCls := accessorClass[acc]
			// the class of the source kinds with which this setter is reached ("" when more than
			// one class gets here: the fall-through of the table)
			pos := oneClass(reachS[in.Block()])
			nonNeg := false
			for _, g := range x.GuardsOf(in.Block()) {
				if bo, isB := g.Cond.(*ssa.BinOp); isB && bo.Op == token.GEQ && g.Pol {
					a2, _, _ := x.accessorOf(bo.X)
					isZero := false
					if kz, isK := constInt(bo.Y); isK && kz == 0 {
						isZero = true
					}
					if cf, isC := bo.Y.(*ssa.Const); isC && cf.Value != nil && cf.Value.Kind() == constant.Float && constant.Sign(cf.Value) == 0 {
						isZero = true
					}
					if a2 == acc && isZero {
						nonNeg = true
					}
				}
			}
			okSrc := true
			why := ""
			if pos != "" {
				if srcCls != pos {
					okSrc, why = false, fmt.Sprintf("source of class %s is read with .%s()", pos, acc)
				}
			} else if srcCls != setterGroup[name] {
				okSrc, why = false, fmt.Sprintf("fall-through reads the source with .%s() for a %s target", acc, setterGroup[name])
			}
			if setterGroup[name] == "uint" && (srcCls == "int" || srcCls == "float") && !nonNeg {
				okSrc, why = false, "a signed / float source is stored into an unsigned target without a `>= 0` test"
			}
			c.Check("I3-setters", key, okGroup && okSrc, in.Pos(), "target kinds %v use %s: %s", kindNames(kinds, ks), name, orStr(why, "setter of the target's group, accessor of the source's class"))
		})
	}
	c.Min("I3-setters", 20)
	c.Min("I3-ParamsTypeChange", 37)
	c.Min("I3-GetWantedValue", 10)
}

// srcClassesAt explores f once per numeric kind of the value src (a parameter, or a slice
// parameter whose elements are the values) and lists, per block, the classes (int, uint,
// float) of the kinds with which the block is reached. Whatever way f tells the classes
// apart — prefixes of the kind or type name, a switch over reflect.Kind, a class computed
// by a helper, the tag of getNumType — is followed by kind-specialised constant propagation.
func (c *Ctx) srcClassesAt(f *ssa.Function, src ssa.Value, kinds map[int64]string, tagOfKind map[string]int64) map[*ssa.BasicBlock]map[string]bool {
	x := c.Index(f)
	out := map[*ssa.BasicBlock]map[string]bool{}
	for _, k := range []string{"int", "int8", "int16", "int32", "int64", "uint", "uint8", "uint16", "uint32", "uint64", "float32", "float64"} {
		cls := "float"
		if strings.HasPrefix(k, "uint") {
			cls = "uint"
		} else if strings.HasPrefix(k, "int") {
			cls = "int"
		}
		env := &kenv{x: x, kindOf: map[ssa.Value]string{src: k}}
		kk := k
		env.callInt = func(call *ssa.Call) (int64, bool) {
			if !calleeIs(call, pCore, "", "getNumType") || len(call.Call.Args) != 1 {
				return 0, false
			}
			if r := env.rootValue(call.Call.Args[0]); r == nil {
				return 0, false
			}
			t, ok := tagOfKind[kk]
			return t, ok
		}
		env.explore(f, kinds, nil)
		for b := range env.visited {
			if out[b] == nil {
				out[b] = map[string]bool{}
			}
			out[b][cls] = true
		}
	}
	return out
}

func oneClass(m map[string]bool) string {
	if len(m) != 1 {
		return ""
	}
	for k := range m {
		return k
	}
	return ""
}

func kindNames(kinds map[int64]string, ks []int64) []string {
	var out []string
	for _, k := range ks {
		out = append(out, kinds[k])
	}
	sort.Strings(out)
	return out
}

// elemChain counts the Elem() calls between a root reflect.Value and v. kind "value": v is a
// reflect.Value reached by .Elem() calls; kind "type": v is root.Type() followed by .Elem() calls.
func (x *FnIndex) elemChain(v ssa.Value, kind string) (int, ssa.Value) {
	n := 0
	for i := 0; i < 6; i++ {
		o := x.Origin(v)
		call, ok := o.(*ssa.Call)
		if !ok {
			if kind == "value" {
				return n, o
			}
			return n, nil
		}
		name := ""
		var recv ssa.Value
		if call.Call.IsInvoke() {
			name, recv = call.Call.Method.Name(), call.Call.Value
		} else if cal := call.Call.StaticCallee(); cal != nil && len(call.Call.Args) >= 1 {
			name, recv = cal.Name(), call.Call.Args[0]
		}
		switch {
		case name == "Elem":
			n++
			v = recv
		case name == "Type" && kind == "type":
			// Type() of a value that is itself reached through Elem() calls:
			// Type(v.Elem()) is Type(v).Elem() for the pointers and interfaces involved
			m, root := x.elemChain(recv, "value")
			return n + m, root
		default:
			if kind == "value" {
				return n, o
			}
			return n, nil
		}
	}
	return n, nil
}

// ruleI6: in MapVar.Evaluate and DataContext.SetMapVarValue every key source (the value of the key
// variable, the literal string key, the literal integer key) flows into the index/key operand of a
// reflect Index / MapIndex / SetMapIndex call, and the assigned value flows into the stored operand.
func (c *Ctx) ruleI6(rule string) {
	for _, spec := range [][3]string{{"internal/base", "MapVar", "Evaluate"}, {"context", "DataContext", "SetMapVarValue"}} {
		f := c.MustFn(rule, spec[0], spec[1], spec[2])
		if f == nil {
			continue
		}
		x := c.Index(f)
		passWanted := func(call *ssa.Call) bool { return calleeIs(call, pCore, "", "GetWantedValue") }
		keySink := func(in ssa.Instruction, v ssa.Value) bool {
			name, cc := reflectMethod(in)
			if cc == nil || len(cc.Args) < 2 {
				return false
			}
			return (name == "Index" || name == "MapIndex" || name == "SetMapIndex") && cc.Args[1] == v
		}
		valSink := func(in ssa.Instruction, v ssa.Value) bool {
			name, cc := reflectMethod(in)
			if cc == nil {
				return false
			}
			if name == "SetMapIndex" && len(cc.Args) == 3 && cc.Args[2] == v {
				return true
			}
			return name == "Set" && len(cc.Args) == 2 && cc.Args[1] == v
		}
		// key sources
		k := 0
		// parameters of SetMapVarValue by position (the caller's argument order is checked by C02-S7):
		// (dc, Vars, name, strkey, varkey string, intkey int64, value reflect.Value)
		var pStr, pVar, pInt, pVal *ssa.Parameter
		if spec[2] == "SetMapVarValue" && len(f.Params) == 7 {
			pStr, pVar, pInt, pVal = f.Params[3], f.Params[4], f.Params[5], f.Params[6]
		}
		isVarkey := func(v ssa.Value) bool {
			if p, ok := x.Origin(v).(*ssa.Parameter); ok && pVar != nil && p == pVar {
				return true
			}
			_, is := x.isFieldLoad(v, "MapVar", "Varkey")
			return is
		}
		eachInstr(f, func(in ssa.Instruction) {
			call, ok := in.(*ssa.Call)
			if !ok || !calleeIs(call, pContext, "DataContext", "GetValue") || !isVarkey(call.Call.Args[2]) {
				return
			}
			k++
			c.Check(rule, fmt.Sprintf("%s#variable-key%d", fnName(f), k), x.flowsTo(call, passWanted, keySink), in.Pos(), "the current value of the key variable is looked up but does not reach the index / key operand of the element access: another element would be addressed")
		})
		// literal keys: every read of the literal key parameter / field reaches a key operand, except reads that only test it
		lit := 0
		var litSources []ssa.Value
		for _, p := range []*ssa.Parameter{pStr, pInt} {
			if p != nil {
				litSources = append(litSources, p)
			}
		}
		eachInstr(f, func(in ssa.Instruction) {
			if u, ok := in.(*ssa.UnOp); ok {
				if fa, ok := u.X.(*ssa.FieldAddr); ok && structName(fa.X.Type()) == "MapVar" && (fieldOf(fa).Name() == "Intkey" || fieldOf(fa).Name() == "Strkey") {
					litSources = append(litSources, u)
				}
			}
		})
		reach := map[string]bool{}
		for _, src := range litSources {
			name := x.Describe(src)
			if x.flowsTo(src, passWanted, keySink) {
				reach[name] = true
			} else if _, seen := reach[name]; !seen {
				reach[name] = false
			}
		}
		for name, ok := range reach {
			lit++
			c.Check(rule, fmt.Sprintf("%s#literal-key %s", fnName(f), name), ok, f.Pos(), "the literal key %s never reaches the index / key operand of an element access", name)
		}
		if spec[2] == "SetMapVarValue" {
			sv := pVal
			ok := sv != nil && x.flowsTo(sv, passWanted, valSink)
			c.Check(rule, fnName(f)+"#assigned-value-stored", ok, f.Pos(), "the assigned value must reach the stored operand of Set / SetMapIndex")
			// every Set / SetMapIndex stores something derived from the assigned value
			n := 0
			kinds := map[string]int{}
			eachInstr(f, func(in ssa.Instruction) {
				name, cc := reflectMethod(in)
				if cc == nil || (name != "Set" && name != "SetMapIndex") {
					return
				}
				n++
				stored := cc.Args[len(cc.Args)-1]
				okV := false
				if ex, isEx := x.Origin(stored).(*ssa.Extract); isEx {
					if wc, isCall := ex.Tuple.(*ssa.Call); isCall && calleeIs(wc, pCore, "", "GetWantedValue") && sv != nil && x.Origin(wc.Call.Args[0]) == ssa.Value(sv) {
						okV = true
					}
				}
				c.Check(rule, fmt.Sprintf("%s#%s%d-stores-assigned-value", fnName(f), name, n), okV, in.Pos(), "the element must receive the assigned value, coerced to the element type by GetWantedValue (got %s)", x.Describe(stored))
				kinds[name]++
			})
			for _, nm := range []string{"Set", "SetMapIndex"} {
				c.Check(rule, fnName(f)+"#writes-through-"+nm, kinds[nm] > 0, f.Pos(), "%s writes elements through reflect %s at %d site(s)", fnName(f), nm, kinds[nm])
			}
		}
		if k == 0 {
			c.Lost(rule, "lookups of the key variable in "+fnName(f))
		}
	}
	c.Min(rule, 14)
}

// ruleI7: dotted names a.b and a.b.c are taken apart positionally: the object is looked up under
// part 0, the first field / method under part 1 on that object, the second under part 2 on the
// result of the first step.
func (c *Ctx) ruleI7(rule string) {
	n := 0
	perFn := map[string]int{}
	for _, f := range c.Methods("context", "DataContext") {
		switch f.Name() {
		case "GetValue", "SetValue", "ExecMethod", "ExecThreeLevel":
		default:
			continue
		}
		x := c.Index(f)
		// part index of a string value: *(&split[k])
		partIdx := func(v ssa.Value) (int64, bool) {
			u, ok := x.Origin(v).(*ssa.UnOp)
			if !ok {
				return 0, false
			}
			ia, ok := u.X.(*ssa.IndexAddr)
			if !ok {
				return 0, false
			}
			sc, ok := x.Origin(ia.X).(*ssa.Call)
			if !ok || !fnIs(sc.Call.StaticCallee(), "strings", "", "Split") {
				return 0, false
			}
			return constInt(ia.Index)
		}
		// depth of an object value: 0 = looked up in the injected table / locals under part 0,
		// 1 = result of a GetStructAttributeValue step on a depth-0 object
		var depth, depth1 func(v ssa.Value, at ssa.Instruction, d int) (int, bool)
		// an object kept in a variable (`obj, ok := lookup(...)`): every value it can hold at the
		// use must be an object of one and the same depth
		depth = func(v ssa.Value, at ssa.Instruction, d int) (int, bool) {
			if d > 4 {
				return 0, false
			}
			pvs := x.ValuesAt(v, at)
			if len(pvs) == 0 {
				return 0, false
			}
			res := -1
			for _, pv := range pvs {
				if pv.V == nil || pv.Outside {
					return 0, false
				}
				dd, ok := depth1(pv.V, at, d)
				if !ok || (res >= 0 && dd != res) {
					return 0, false
				}
				res = dd
			}
			return res, true
		}
		depth1 = func(v ssa.Value, at ssa.Instruction, d int) (int, bool) {
			o := x.Origin(v)
			ex, ok := o.(*ssa.Extract)
			if !ok || ex.Index != 0 {
				return 0, false
			}
			switch t := ex.Tuple.(type) {
			case *ssa.Lookup:
				if k, ok := partIdx(t.Index); ok && k == 0 {
					return 0, true
				}
			case *ssa.Call:
				if calleeIs(t, pCore, "", "GetStructAttributeValue") {
					if dd, ok := depth(t.Call.Args[0], t, d+1); ok {
						return dd + 1, true
					}
				}
			}
			return 0, false
		}
		k := 0
		eachInstr(f, func(in ssa.Instruction) {
			call, ok := in.(*ssa.Call)
			if !ok {
				return
			}
			cal := call.Call.StaticCallee()
			if cal == nil || cal.Pkg == nil || cal.Pkg.Pkg.Path() != pCore {
				return
			}
			switch cal.Name() {
			case "GetStructAttributeValue", "SetAttributeValue", "InvokeFunction":
			default:
				return
			}
			k++
			n++
			key := fmt.Sprintf("%s#%s%d", fnName(f), cal.Name(), k)
			d, okD := depth(call.Call.Args[0], call, 0)
			perFn[f.Name()]++
			pi, okP := partIdx(call.Call.Args[1])
			c.Check(rule, key, okD && okP && pi == int64(d+1), in.Pos(), "%s on an object reached after %d step(s) must use part %d of the dotted name (uses part %d; object/part recognised: %v/%v)", cal.Name(), d, d+1, pi, okD, okP)
		})
	}
	if n == 0 {
		c.Lost(rule, "field / method steps in DataContext")
	}
	for _, fnm := range []string{"GetValue", "SetValue", "ExecMethod", "ExecThreeLevel"} {
		c.Check(rule, "DataContext."+fnm+"#has-steps", perFn[fnm] > 0, token.NoPos, "%s resolves its dotted name through %d field / method step(s)", fnm, perFn[fnm])
	}
	c.Min(rule, 8)
}

// ruleI8: the field read or written is the one of the given name on the given object. In
// GetStructAttributeValue every value returned without an error, and in SetAttributeValue every value a
// reflect setter is applied to, is FieldByName(the name given) of the object given (or of what it points
// to) -- or FieldByIndex with an index path that was found for that name on that object's own reflect.Type:
// directly by Type().FieldByName(name), or taken from a table whose keys contain the reflect.Type itself.
// A position remembered under anything else (a printed type name, the field name alone) can belong to
// another type and another field.
func (c *Ctx) ruleI8(rule string) {
	setters := map[string]bool{"Set": true, "SetInt": true, "SetUint": true, "SetFloat": true, "SetString": true, "SetBool": true, "SetComplex": true}
	for _, fname := range []string{"GetStructAttributeValue", "SetAttributeValue"} {
		f := c.MustFn(rule, "internal/core", "", fname)
		if f == nil || len(f.Params) < 2 {
			continue
		}
		x := c.Index(f)
		obj, name := ssa.Value(f.Params[0]), ssa.Value(f.Params[1])
		var rootOK func(v ssa.Value, at ssa.Instruction, d int) bool
		rootOK = func(v ssa.Value, at ssa.Instruction, d int) bool {
			if d > 4 {
				return false
			}
			pvs := x.ValuesAt(v, at)
			if len(pvs) == 0 {
				return false
			}
			for _, pv := range pvs {
				if pv.V == nil || pv.Outside {
					return false
				}
				o := x.Origin(pv.V)
				if o == obj {
					continue
				}
				call, isCall := o.(*ssa.Call)
				if !isCall {
					return false
				}
				if nm, cc := reflectMethod(call); cc != nil && nm == "Elem" {
					if !rootOK(cc.Args[0], call, d+1) {
						return false
					}
					continue
				}
				if fnIs(call.Call.StaticCallee(), "reflect", "", "Indirect") {
					if !rootOK(call.Call.Args[0], call, d+1) {
						return false
					}
					continue
				}
				return false
			}
			return true
		}
		isName := func(v ssa.Value, at ssa.Instruction) bool {
			pvs := x.ValuesAt(v, at)
			if len(pvs) == 0 {
				return false
			}
			for _, pv := range pvs {
				if pv.V == nil || x.Origin(pv.V) != name {
					return false
				}
			}
			return true
		}
		isReflectType := func(t types.Type) bool {
			n, ok := t.(*types.Named)
			return ok && n.Obj().Pkg() != nil && n.Obj().Pkg().Path() == "reflect" && n.Obj().Name() == "Type"
		}
		holdsType := func(t types.Type) bool {
			if p, isP := t.(*types.Pointer); isP {
				t = p.Elem()
			}
			if isReflectType(t) {
				return true
			}
			if st, ok := t.Underlying().(*types.Struct); ok {
				for i := 0; i < st.NumFields(); i++ {
					if isReflectType(st.Field(i).Type()) {
						return true
					}
				}
			}
			return false
		}
		// typeOfRoot: v is <the object>.Type() (or .Elem() of it)
		var typeOfRoot func(v ssa.Value, at ssa.Instruction, d int) bool
		typeOfRoot = func(v ssa.Value, at ssa.Instruction, d int) bool {
			if d > 4 {
				return false
			}
			pvs := x.ValuesAt(v, at)
			if len(pvs) == 0 {
				return false
			}
			for _, pv := range pvs {
				if pv.V == nil {
					return false
				}
				call, isCall := x.Origin(pv.V).(*ssa.Call)
				if !isCall {
					return false
				}
				if nm, cc := reflectMethod(call); cc != nil && nm == "Type" && rootOK(cc.Args[0], call, 0) {
					continue
				}
				if call.Call.IsInvoke() && call.Call.Method.Name() == "Elem" && isReflectType(call.Call.Value.Type()) && typeOfRoot(call.Call.Value, call, d+1) {
					continue
				}
				return false
			}
			return true
		}
		why := ""
		// idxOK: where an index path comes from; sawType: a reflect.Type took part in finding it
		var idxOK func(v ssa.Value, at ssa.Instruction, d int, sawType *bool) bool
		keyOK := func(k ssa.Value, at ssa.Instruction, sawType *bool) bool {
			o := x.Unwrap(k)
			switch {
			case holdsType(o.Type()):
				*sawType = true
				return true
			case isName(k, at) || o == name:
				return true
			}
			why = "an index path looked up under a key that is neither the reflect.Type nor the given name (" + x.Describe(o) + ": " + o.Type().String() + ")"
			return false
		}
		idxOK = func(v ssa.Value, at ssa.Instruction, d int, sawType *bool) bool {
			if d > 6 {
				return false
			}
			// a field of a local struct variable that is only ever assigned as a whole (sf.Index)
			if ld, isLd := v.(*ssa.UnOp); isLd && ld.Op == token.MUL {
				if fa, isFa := ld.X.(*ssa.FieldAddr); isFa {
					if al, isAl := x.ResolveAddr(fa.X).(*ssa.Alloc); isAl && len(x.stores[al]) > 0 && len(x.stores[fa]) == 0 {
						for _, st := range x.stores[al] {
							if !idxOK(st.Val, st, d+1, sawType) {
								return false
							}
						}
						return true
					}
				}
			}
			pvs := x.ValuesAt(v, at)
			if len(pvs) == 0 {
				return false
			}
			for _, pv := range pvs {
				if pv.V == nil || pv.Outside {
					return false
				}
				o := x.Origin(pv.V)
				switch t := o.(type) {
				case *ssa.TypeAssert:
					if !idxOK(t.X, t, d+1, sawType) {
						return false
					}
				case *ssa.Field:
					if !idxOK(t.X, t, d+1, sawType) {
						return false
					}
				case *ssa.UnOp:
					fa, isFa := t.X.(*ssa.FieldAddr)
					if t.Op != token.MUL || !isFa {
						return false
					}
					al, isAl := x.ResolveAddr(fa.X).(*ssa.Alloc)
					if !isAl || len(x.stores[al]) == 0 {
						return false
					}
					for _, st := range x.stores[al] {
						if !idxOK(st.Val, st, d+1, sawType) {
							return false
						}
					}
				case *ssa.Extract:
					switch tup := t.Tuple.(type) {
					case *ssa.Call:
						cal := tup.Call.StaticCallee()
						switch {
						case tup.Call.IsInvoke() && tup.Call.Method.Name() == "FieldByName" && isReflectType(tup.Call.Value.Type()):
							if !typeOfRoot(tup.Call.Value, tup, 0) || !isName(tup.Call.Args[0], tup) {
								why = "Type.FieldByName on another type or another name"
								return false
							}
							*sawType = true
						case cal != nil && cal.Pkg != nil && cal.Pkg.Pkg.Path() == "sync" && (cal.Name() == "Load" || cal.Name() == "LoadOrStore"):
							if !keyOK(tup.Call.Args[1], tup, sawType) {
								return false
							}
						default:
							return false
						}
					case *ssa.Lookup:
						if !keyOK(tup.Index, tup, sawType) {
							return false
						}
						if _, isGlobal := x.Origin(tup.X).(*ssa.UnOp); !isGlobal {
							if !idxOK(tup.X, tup, d+1, sawType) {
								return false
							}
						}
					default:
						return false
					}
				case *ssa.Lookup:
					if !keyOK(t.Index, t, sawType) {
						return false
					}
					if _, isGlobal := x.Origin(t.X).(*ssa.UnOp); !isGlobal {
						if !idxOK(t.X, t, d+1, sawType) {
							return false
						}
					}
				default:
					return false
				}
			}
			return true
		}
		// fieldOK: v is the field of the given name of the given object
		fieldOK := func(v ssa.Value, at ssa.Instruction) (bool, int) {
			n := 0
			for _, pv := range x.ValuesAt(v, at) {
				if pv.V == nil {
					continue // the zero Value: no such field
				}
				o := x.Origin(pv.V)
				if ld, isLd := o.(*ssa.UnOp); isLd && ld.Op == token.MUL {
					if al, isAl := ld.X.(*ssa.Alloc); isAl && len(x.stores[al]) == 0 {
						continue // reflect.Value{}: no such field
					}
				}
				call, isCall := o.(*ssa.Call)
				if !isCall {
					why = orStr(why, x.Describe(o))
					return false, n
				}
				if fnIs(call.Call.StaticCallee(), "reflect", "", "ValueOf") {
					if cc, isC := x.Unwrap(call.Call.Args[0]).(*ssa.Const); isC && cc.Value == nil {
						continue
					}
				}
				nm, cc := reflectMethod(call)
				switch {
				case cc != nil && nm == "FieldByName":
					if !rootOK(cc.Args[0], call, 0) || !isName(cc.Args[1], call) {
						why = orStr(why, "FieldByName on another object or with another name")
						return false, n
					}
				case cc != nil && nm == "FieldByIndex":
					saw := false
					if !rootOK(cc.Args[0], call, 0) || !idxOK(cc.Args[1], call, 0, &saw) || !saw {
						why = orStr(why, "FieldByIndex with an index path that was not found for this name on this object's own reflect.Type")
						return false, n
					}
				default:
					why = orStr(why, x.Describe(o))
					return false, n
				}
				n++
			}
			return true, n
		}
		total, bad, badPos := 0, false, f.Pos()
		eachInstr(f, func(in ssa.Instruction) {
			if bad {
				return
			}
			switch fname {
			case "GetStructAttributeValue":
				r, isRet := in.(*ssa.Return)
				if !isRet || len(r.Results) != 2 {
					return
				}
				errNil := false
				for _, ev := range x.PossibleValues(r.Results[1]) {
					if ev.V == nil || isConstNil(ev.V) {
						errNil = true
					}
				}
				if !errNil {
					return
				}
				ok, n := fieldOK(r.Results[0], r)
				total += n
				if !ok {
					bad, badPos = true, r.Pos()
				}
			case "SetAttributeValue":
				nm, cc := reflectMethod(in)
				if cc == nil || !setters[nm] {
					return
				}
				ok, n := fieldOK(cc.Args[0], in)
				total += n
				if !ok || n == 0 {
					bad, badPos = true, in.Pos()
					why = orStr(why, "the setter's target is not a field found by name")
				}
			}
		})
		c.Check(rule, fname+"#field-of-that-name", !bad && total > 0, badPos, "the field accessed must be the one of the given name on the given object, found by name on every call (%d accesses by name recognised): %s", total, orStr(why, "ok"))
	}
	c.Min(rule, 2)
}

// callersOf: the (root) functions that call the named function, sorted.
func (c *Ctx) callersOf(pkg, recv, name string) []string {
	var out []string
	set := map[string]bool{}
	for _, f := range c.AllFns {
		eachInstr(f, func(in ssa.Instruction) {
			if cc := callCommon(in); cc != nil && fnIs(cc.StaticCallee(), pkg, recv, name) {
				set[fnName(rootOf(f))] = true
			}
		})
	}
	for k := range set {
		out = append(out, k)
	}
	sort.Strings(out)
	return out
}

// ruleValueAsRead: every return of the evaluator hands on, as its value, the first result of one of the
// accepted calls, unchanged -- or no value (reflect.ValueOf(nil), the unassigned result) beside an error.
func (c *Ctx) ruleValueAsRead(rule, key string, f *ssa.Function, accept func(*ssa.Call) bool, min int, what string) {
	x := c.Index(f)
	bad, badPos, n := "", f.Pos(), 0
	eachInstr(f, func(in ssa.Instruction) {
		r, isRet := in.(*ssa.Return)
		if !isRet || len(r.Results) != 2 || bad != "" {
			return
		}
		for _, pv := range x.ValuesAt(r.Results[0], r) {
			if pv.V == nil {
				continue
			}
			o := x.Origin(pv.V)
			if ex, isEx := o.(*ssa.Extract); isEx && ex.Index == 0 {
				if call, isCall := ex.Tuple.(*ssa.Call); isCall && accept(call) {
					n++
					continue
				}
			}
			if call, isCall := o.(*ssa.Call); isCall && fnIs(call.Call.StaticCallee(), "reflect", "", "ValueOf") {
				if cc, isC := x.Unwrap(call.Call.Args[0]).(*ssa.Const); isC && cc.Value == nil {
					continue // no value, with an error
				}
			}
			bad, badPos = x.Describe(o), r.Pos()
		}
	})
	c.Check(rule, key, bad == "" && n >= min, badPos, "%s (%d pass-through returns found): %s", what, n, orStr(bad, "ok"))
}

// typeHoldsReflectType: t is reflect.Type, or a struct (or pointer to one) with a field of that type.
func typeHoldsReflectType(t types.Type) bool {
	isRT := func(t types.Type) bool {
		n, ok := t.(*types.Named)
		return ok && n.Obj().Pkg() != nil && n.Obj().Pkg().Path() == "reflect" && n.Obj().Name() == "Type"
	}
	if p, isP := t.(*types.Pointer); isP {
		t = p.Elem()
	}
	if isRT(t) {
		return true
	}
	if st, ok := t.Underlying().(*types.Struct); ok {
		for i := 0; i < st.NumFields(); i++ {
			if isRT(st.Field(i).Type()) {
				return true
			}
		}
	}
	return false
}

// methodIndexForName: every value the method index v can have at `at` was found for the given name on a
// reflect.Type: read from a table under a key that contains the reflect.Type (sync.Map.Load, a map lookup),
// or the Index of Type.MethodByName(name).
func methodIndexForName(x *FnIndex, v ssa.Value, at ssa.Instruction, name *ssa.Parameter, d int) bool {
	if d > 6 {
		return false
	}
	// m.Index read straight from the reflect.Method variable
	if u, isU := v.(*ssa.UnOp); isU && u.Op == token.MUL {
		if fa, isFA := u.X.(*ssa.FieldAddr); isFA && fieldOf(fa) != nil && fieldOf(fa).Name() == "Index" {
			al, isAl := x.ResolveAddr(fa.X).(*ssa.Alloc)
			if !isAl || len(x.stores[al]) == 0 {
				return false
			}
			for _, st := range x.stores[al] {
				if !methodOfTypeByName(x, st.Val, name) {
					return false
				}
			}
			return true
		}
	}
	pvs := x.ValuesAt(v, at)
	if len(pvs) == 0 {
		return false
	}
	for _, pv := range pvs {
		if pv.V == nil || pv.Outside {
			return false
		}
		switch t := x.Origin(pv.V).(type) {
		case *ssa.TypeAssert:
			if !methodIndexForName(x, t.X, t, name, d+1) {
				return false
			}
		case *ssa.Extract:
			switch src := t.Tuple.(type) {
			case *ssa.Call:
				cal := src.Call.StaticCallee()
				if t.Index == 0 && cal != nil && cal.Name() == "Load" && cal.Pkg != nil && cal.Pkg.Pkg.Path() == "sync" && len(src.Call.Args) == 2 {
					k := x.Unwrap(src.Call.Args[1])
					if mi, isMI := k.(*ssa.MakeInterface); isMI {
						k = mi.X
					}
					if !typeHoldsReflectType(k.Type()) {
						return false
					}
					continue
				}
				return false
			case *ssa.Lookup:
				if t.Index != 0 || !typeHoldsReflectType(src.Index.Type()) {
					return false
				}
			default:
				return false
			}
		case *ssa.Lookup:
			if !typeHoldsReflectType(t.Index.Type()) {
				return false
			}
		case *ssa.Field:
			// reflect.Method.Index of Type.MethodByName(name)
			if !methodOfTypeByName(x, t.X, name) {
				return false
			}
		case *ssa.UnOp:
			fa, isFA := t.X.(*ssa.FieldAddr)
			if t.Op != token.MUL || !isFA || fieldOf(fa) == nil || fieldOf(fa).Name() != "Index" {
				return false
			}
			al, isAl := x.ResolveAddr(fa.X).(*ssa.Alloc)
			if !isAl || len(x.stores[al]) == 0 {
				return false
			}
			for _, st := range x.stores[al] {
				if !methodOfTypeByName(x, st.Val, name) {
					return false
				}
			}
		default:
			return false
		}
	}
	return true
}

// methodOfTypeByName: v is the reflect.Method that <a reflect.Type>.MethodByName(name) returned.
func methodOfTypeByName(x *FnIndex, v ssa.Value, name *ssa.Parameter) bool {
	ex, ok := x.Origin(v).(*ssa.Extract)
	if !ok || ex.Index != 0 {
		return false
	}
	call, ok := ex.Tuple.(*ssa.Call)
	if !ok || !call.Call.IsInvoke() || call.Call.Method.Name() != "MethodByName" || !typeHoldsReflectType(call.Call.Value.Type()) {
		return false
	}
	return len(call.Call.Args) == 1 && x.Origin(call.Call.Args[0]) == ssa.Value(name)
}

// isZeroReflectValue: v is the composite literal reflect.Value{} (an Alloc never stored to, read whole).
func isZeroReflectValue(v ssa.Value) bool {
	u, ok := v.(*ssa.UnOp)
	if !ok || u.Op != token.MUL {
		return false
	}
	al, ok := u.X.(*ssa.Alloc)
	if !ok || !isReflectValue(al.Type().(*types.Pointer).Elem()) {
		return false
	}
	for _, r := range *al.Referrers() {
		switch t := r.(type) {
		case *ssa.UnOp, *ssa.DebugRef:
		case *ssa.Store:
			if t.Addr == ssa.Value(al) {
				return false
			}
		default:
			return false
		}
	}
	return true
}

// madeInThisCall: v is a slice allocated by the function itself (make, a literal, nil, or appends
// to one of those) and not memory that outlives the call.
func madeInThisCall(x *FnIndex, v ssa.Value, depth int) bool {
	if depth > 6 {
		return false
	}
	switch t := x.Origin(v).(type) {
	case *ssa.MakeSlice:
		return true
	case *ssa.Const:
		return t.IsNil()
	case *ssa.Slice:
		if a, ok := x.Origin(t.X).(*ssa.Alloc); ok {
			_ = a
			return true
		}
		return madeInThisCall(x, t.X, depth+1)
	case *ssa.Call:
		if args, ok := builtinCall(t, "append"); ok {
			for _, pv := range x.PossibleValues(args[0]) {
				if !madeInThisCall(x, pv.V, depth+1) {
					return false
				}
			}
			return true
		}
	case *ssa.Phi:
		for _, e := range t.Edges {
			if !madeInThisCall(x, e, depth+1) {
				return false
			}
		}
		return true
	}
	return false
}
