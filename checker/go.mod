module gverif

go 1.23

require (
	github.com/antlr/antlr4 v0.0.0-20210105192202-5c2b686f95e1
	golang.org/x/tools v0.29.0
)

require (
	golang.org/x/mod v0.22.0 // indirect
	golang.org/x/sync v0.10.0 // indirect
)
