package main

import (
	"fmt"
	"go/constant"
	"go/token"
	"go/types"
	"sort"
	"strings"

	"golang.org/x/tools/go/ssa"
)

func init() {
	register("C16", runC16, propMeta{
		Explanation: "Decides, for every sequence of management operations, the structural conditions behind 'queries and executions agree with the denoted rule set and no sequence panics': (Q1) the master builder gp.ruleBuilder is set to nil by ClearPoolRules; in every management operation and query each use of it is reachable only through the not-nil edge of a test of it or after a store of a freshly created builder (path-sensitive, so the `clear || nil` idiom and the re-creation on a cleared pool are both understood); (Q2) every function that replaces or mutates the master also installs the master's container on all instances (C07-U3) under updateLock and, on success, stores clear=false; ClearPoolRules stores clear=true, ruleBuilder=nil and a fresh empty container on every instance; (Q3) the four rule queries read the master only under updateLock and only when the cleared flag is known false; (Q4) all 24 execute methods return (nil, empty map) on a cleared pool before acquiring an engine; (Q5) SetExecModel and NewGenginePool accept exactly the four model constants, each ...WithSpecifiedEM method has for each constant a branch on gp.execModel calling the engine method of that model (exhaustive 4x3 table), every other pool execute method calls the engine method of the same name with its n, m, flag and name arguments in the same positions; (Q6) initial and additional instances are treated alike: the instance loops cover [0,max) and wrapper tags are a bijection onto it. (Q9) the pool's incremental merge keeps name map, sorted list and index in step (the merge model of C08 on updateIncremental). Not decided: equality of query answers with the denoted set over histories (needs the algebra of C08). prepare* bind gw.rulebuilder = gp.rbSlice[gw.tag] on every request (Q10): executions follow what the management operations publish. (Q11) every engine method starts from a fresh result map before anything else, also before its 'no rule' error return. (Q12) the pool's compile pipeline walks the tree with the listener and tests the lexer's, the parser's and the listener's error lists after they can have been filled and before a container is handed on: a text that does not compile changes nothing. (Q13) the listener hands every node it takes off its stack on to its parent or the container: every rule written in a text is installed. (Q14) the engine object keeps no compiled rules from one call to the next: what an instance runs is looked up in the container its builder holds now.",
		Assumptions: []string{"PluginLoader is outside the property's operation list (it dereferences the master without a guard)"},
		Trusted:     commonTrusted,
	})
}

func (c *Ctx) ruleQ1(rule string, exempt map[string]bool) {
	for _, f := range c.Methods("engine", "GenginePool") {
		if exempt[f.Name()] {
			continue
		}
		x := c.Index(f)
		gp := ssa.Value(f.Params[0])
		isMasterLoad := func(v ssa.Value) bool {
			b, ok := x.isFieldLoad(v, "GenginePool", "ruleBuilder")
			return ok && x.Origin(b) == gp
		}
		// edges on which the master is known non-nil
		safeEdges := map[edgeKey]bool{}
		for _, b := range f.Blocks {
			iff, ok := b.Instrs[len(b.Instrs)-1].(*ssa.If)
			if !ok {
				continue
			}
			for edge, outcome := range []bool{true, false} {
				for _, f := range x.implied(iff.Cond, outcome, 0) {
					if s, neq, ok := nilCheck(f.v); ok && isMasterLoad(s) && neq == f.pol {
						safeEdges[edgeKey{b, edge}] = true
					}
				}
			}
		}
		nonNilStore := func(in ssa.Instruction) bool {
			st, ok := in.(*ssa.Store)
			if !ok {
				return false
			}
			fa, ok := st.Addr.(*ssa.FieldAddr)
			if !ok || fieldOf(fa).Name() != "ruleBuilder" || structName(fa.X.Type()) != "GenginePool" {
				return false
			}
			v := x.Origin(st.Val)
			if cl, ok := v.(*ssa.Call); ok && calleeIs(cl, pBuilder, "", "NewRuleBuilder") {
				return true
			}
			if ex, ok := v.(*ssa.Extract); ok && ex.Index == 0 {
				if cl, ok := ex.Tuple.(*ssa.Call); ok && calleeIs(cl, pEngine, "", "makeRuleBuilder") {
					// non-nil when its error is nil
					for _, g := range x.GuardsOf(st.Block()) {
						if s, neq, ok := nilCheck(g.Cond); ok {
							if e2, ok := x.Origin(s).(*ssa.Extract); ok && e2.Tuple == ssa.Value(cl) && e2.Index == 1 && neq != g.Pol {
								return true
							}
						}
					}
				}
			}
			return false
		}
		k := 0
		eachInstr(f, func(in ssa.Instruction) {
			uses := false
			switch t := in.(type) {
			case *ssa.FieldAddr:
				uses = isMasterLoad(t.X)
			case *ssa.Call:
				for _, a := range t.Call.Args {
					if isMasterLoad(a) {
						uses = true
					}
				}
			}
			if !uses {
				return
			}
			k++
			key := fmt.Sprintf("%s#master-use%d", fnName(f), k)
			_, unsafe := pathExistsEB(f, nil, func(i2 ssa.Instruction) bool { return i2 == in }, safeEdges, nonNilStore)
			c.Check(rule, key, !unsafe, in.Pos(), "gp.ruleBuilder (nil after ClearPoolRules) is used here on a path that neither tested it for nil nor stored a new builder")
		})
	}
}

func runC16(c *Ctx) {
	c.ruleQ1("Q1-nilable-master", map[string]bool{"PluginLoader": true})
	c.Min("Q1-nilable-master", 5)
	c.Note("GenginePool.PluginLoader dereferences the master without a guard; it is not one of the property's operations and is exempt")
	// Q2
	c.ruleU3("Q2-instances-follow-master")
	for _, n := range []string{"UpdatePooledRules", "UpdatePooledRulesIncremental", "ClearPoolRules"} {
		f := c.MustFn("Q2-cleared-flag", "engine", "GenginePool", n)
		if f == nil {
			continue
		}
		x := c.Index(f)
		wantClear := n == "ClearPoolRules"
		var st *ssa.Store
		nilMaster := false
		eachInstr(f, func(in ssa.Instruction) {
			s, ok := in.(*ssa.Store)
			if !ok {
				return
			}
			fa, ok := s.Addr.(*ssa.FieldAddr)
			if !ok || structName(fa.X.Type()) != "GenginePool" {
				return
			}
			if fieldOf(fa).Name() == "clear" {
				if b, ok := constBool(x.Origin(s.Val)); ok && b == wantClear {
					st = s
				}
			}
			if fieldOf(fa).Name() == "ruleBuilder" && isConstNil(x.Origin(s.Val)) {
				nilMaster = true
			}
		})
		ok := st != nil
		if ok && !wantClear {
			// dominates every successful return
			eachInstr(f, func(in ssa.Instruction) {
				r, isR := in.(*ssa.Return)
				if !isR || len(r.Results) == 0 || r.Block() == f.Recover {
					return
				}
				for _, pv := range x.PossibleValues(r.Results[0]) {
					if (pv.V == nil || isConstNil(pv.V)) && !domInstr(st, r) {
						ok = false
					}
				}
			})
		}
		if wantClear {
			ok = ok && nilMaster
		}
		c.Check("Q2-cleared-flag", "GenginePool."+n, ok, f.Pos(), "%s must store clear=%v%s before returning successfully", n, wantClear, map[bool]string{true: " and ruleBuilder=nil", false: ""}[wantClear])
	}
	c.ruleU4("Q2-under-update-lock")
	// Q3
	for _, n := range []string{"IsExist", "GetRuleSalience", "GetRuleDesc", "GetRulesNumber"} {
		f := c.MustFn("Q3-queries", "engine", "GenginePool", n)
		if f == nil {
			continue
		}
		x := c.Index(f)
		gp := ssa.Value(f.Params[0])
		k := 0
		eachInstr(f, func(in ssa.Instruction) {
			fa, ok := in.(*ssa.FieldAddr)
			if !ok {
				return
			}
			b, isM := x.isFieldLoad(fa.X, "GenginePool", "ruleBuilder")
			if !isM || x.Origin(b) != gp {
				return
			}
			k++
			key := fmt.Sprintf("GenginePool.%s#master-read%d", n, k)
			_, held := x.heldAt(in)["GenginePool.updateLock"]
			flag := false
			for _, g := range x.GuardsOf(in.Block()) {
				if cb, is := x.isFieldLoad(g.Cond, "GenginePool", "clear"); is && x.Origin(cb) == gp && !g.Pol {
					flag = true
				}
			}
			c.Check("Q3-queries", key, held && flag, in.Pos(), "a query must read the master under updateLock (held: %v) and only when the cleared flag is false (known: %v)", held, flag)
		})
		if k == 0 {
			c.Check("Q3-queries", "GenginePool."+n+"#reads-master", false, f.Pos(), "the query does not consult the master rule builder")
		}
	}
	c.Min("Q3-queries", 4)
	// what the queries answer
	type qspec struct{ fn, field string }
	for _, q := range []qspec{{"GetRuleSalience", "Salience"}, {"GetRuleDesc", "RuleDescription"}} {
		f := c.MustFn("Q3-query-answers", "engine", "GenginePool", q.fn)
		if f == nil {
			continue
		}
		x := c.Index(f)
		ok := false
		eachInstr(f, func(in ssa.Instruction) {
			r, isR := in.(*ssa.Return)
			if !isR || r.Block() == f.Recover {
				return
			}
			for _, pv := range x.PossibleValues(r.Results[0]) {
				b, is := x.isFieldLoad(pv.V, "RuleEntity", q.field)
				if !is {
					continue
				}
				if ex, isEx := x.Origin(b).(*ssa.Extract); isEx && ex.Index == 0 {
					if lk, isLk := ex.Tuple.(*ssa.Lookup); isLk && x.Origin(lk.Index) == ssa.Value(f.Params[1]) {
						if mb, isM := x.isFieldLoad(lk.X, "KnowledgeContext", "RuleEntities"); isM {
							if kb, isK := x.isFieldLoad(mb, "RuleBuilder", "Kc"); isK {
								if _, isMaster := x.isFieldLoad(kb, "GenginePool", "ruleBuilder"); isMaster {
									ok = true
								}
							}
						}
					}
				}
			}
		})
		c.Check("Q3-query-answers", "GenginePool."+q.fn, ok, f.Pos(), "%s must answer with the %s of the rule found under the given name in the master's name map", q.fn, q.field)
	}
	if f := c.MustFn("Q3-query-answers", "engine", "GenginePool", "GetRulesNumber"); f != nil {
		x := c.Index(f)
		ok := false
		eachInstr(f, func(in ssa.Instruction) {
			if r, isR := in.(*ssa.Return); isR && r.Block() != f.Recover {
				for _, pv := range x.PossibleValues(r.Results[0]) {
					if args, isLen := builtinCall(pv.V, "len"); isLen {
						if mb, isM := x.isFieldLoad(args[0], "KnowledgeContext", "RuleEntities"); isM {
							if kb, isK := x.isFieldLoad(mb, "RuleBuilder", "Kc"); isK {
								if _, isMaster := x.isFieldLoad(kb, "GenginePool", "ruleBuilder"); isMaster {
									ok = true
								}
							}
						}
					}
				}
			}
		})
		c.Check("Q3-query-answers", "GenginePool.GetRulesNumber", ok, f.Pos(), "GetRulesNumber must answer with the size of the master's name map")
	}
	if f := c.MustFn("Q3-query-answers", "engine", "GenginePool", "IsExist"); f != nil {
		x := c.Index(f)
		gp := ssa.Value(f.Params[0])
		// "the pool has no rules": gp.clear, gp.ruleBuilder == nil, or their disjunction kept in a variable
		// isNoRules(v, pol): "v has truth value pol" means the pool has no rules
		var isNoRules func(v ssa.Value, pol bool, d int) bool
		isNoRules = func(v ssa.Value, pol bool, d int) bool {
			v = x.Origin(v)
			if d > 4 {
				return false
			}
			if b, is := x.isFieldLoad(v, "GenginePool", "clear"); is && x.Origin(b) == gp {
				return pol
			}
			if s, neq, isN := nilCheck(v); isN {
				if b, is := x.isFieldLoad(s, "GenginePool", "ruleBuilder"); is && x.Origin(b) == gp {
					return neq != pol
				}
			}
			if u, isU := v.(*ssa.UnOp); isU && u.Op == token.NOT {
				return isNoRules(u.X, !pol, d+1)
			}
			if ph, isPhi := v.(*ssa.Phi); isPhi && pol {
				// a || b kept in a variable: true means one of the operands held
				all := true
				for i, e := range ph.Edges {
					if bv, isC := constBool(e); isC {
						if !bv {
							all = false
						}
						p := ph.Block().Preds[i]
						pi, isIf := p.Instrs[len(p.Instrs)-1].(*ssa.If)
						if !isIf || len(p.Succs) != 2 {
							all = false
							continue
						}
						if !isNoRules(pi.Cond, p.Succs[0] == ph.Block(), d+1) {
							all = false
						}
					} else if !isNoRules(e, true, d+1) {
						all = false
					}
				}
				return all
			}
			return false
		}
		noRulesEdges := map[edgeKey]bool{}
		for _, blk := range f.Blocks {
			iff, isIf := blk.Instrs[len(blk.Instrs)-1].(*ssa.If)
			if !isIf || len(blk.Succs) != 2 {
				continue
			}
			for edge, outcome := range []bool{true, false} {
				for _, fct := range x.implied(iff.Cond, outcome, 0) {
					if isNoRules(fct.v, fct.pol, 0) {
						noRulesEdges[edgeKey{blk, edge}] = true
					}
				}
			}
		}
		ok := false
		bad := ""
		entry := f.Blocks[0].Instrs[0]
		eachInstr(f, func(in ssa.Instruction) {
			st, isSt := in.(*ssa.Store)
			if !isSt {
				return
			}
			args, isApp := builtinCall(st.Val, "append")
			if !isApp {
				return
			}
			el := x.appendedSingle(args[1])
			if el == nil {
				return
			}
			if bt, isB := el.Type().Underlying().(*types.Basic); !isB || bt.Kind() != types.Bool {
				return
			}
			if len(x.GuardsOfInLoop(st.Block())) != 0 && len(noRulesEdges) == 0 {
				bad = "an answer is appended conditionally"
			}
			// every value appended is the hit of a lookup of the current name in the master's name
			// map, or the constant false where the pool has no rules
			for _, pv := range x.PossibleValues(el) {
				if pv.V == nil || pv.Outside {
					bad = "an unknown value is appended"
					continue
				}
				if bv, isC := constBool(pv.V); isC && !bv {
					if !x.reachesOnlyVia(f, entry, pv, in, noRulesEdges) {
						bad = "false is appended although the pool may have rules"
					}
					continue
				}
				good := false
				if ex, isEx := pv.V.(*ssa.Extract); isEx && ex.Index == 1 {
					if lk, isLk := ex.Tuple.(*ssa.Lookup); isLk {
						if s, l, isR := x.rangedSlice(lk.Index); isR && x.Origin(s) == ssa.Value(f.Params[1]) && l.Blocks[st.Block()] {
							if mb, isM := x.isFieldLoad(lk.X, "KnowledgeContext", "RuleEntities"); isM {
								if kb, isK := x.isFieldLoad(mb, "RuleBuilder", "Kc"); isK {
									if _, isMaster := x.isFieldLoad(kb, "GenginePool", "ruleBuilder"); isMaster {
										good = true
										ok = true
									}
								}
							}
						}
					}
				}
				if !good {
					bad = "a value other than the hit of the master's name map is appended: " + x.Describe(pv.V)
				}
			}
		})
		c.Check("Q3-query-answers", "GenginePool.IsExist", ok && bad == "", f.Pos(), "IsExist must append, for each given name in order, whether the master's name map has it (false only where the pool has no rules): %s", bad)
	}
	if f := c.MustFn("Q3-query-answers", "engine", "GenginePool", "GetExecModel"); f != nil {
		x := c.Index(f)
		ok := false
		eachInstr(f, func(in ssa.Instruction) {
			if r, isR := in.(*ssa.Return); isR {
				if b, is := x.isFieldLoad(r.Results[0], "GenginePool", "execModel"); is && x.Origin(b) == ssa.Value(f.Params[0]) {
					ok = true
				}
			}
		})
		c.Check("Q3-query-answers", "GenginePool.GetExecModel", ok, f.Pos(), "GetExecModel must answer with the stored model")
	}
	if f := c.MustFn("Q3-query-answers", "engine", "GenginePool", "SetExecModel"); f != nil {
		x := c.Index(f)
		ok := false
		eachInstr(f, func(in ssa.Instruction) {
			if st, isSt := in.(*ssa.Store); isSt {
				if fa, isFA := st.Addr.(*ssa.FieldAddr); isFA && fieldOf(fa).Name() == "execModel" && x.Origin(st.Val) == ssa.Value(f.Params[1]) {
					ok = true
				}
			}
		})
		c.Check("Q3-query-answers", "GenginePool.SetExecModel", ok, f.Pos(), "SetExecModel must store the model it was given")
	}
	c.Min("Q3-query-answers", 6)
	// Q4
	c.ruleLifecycle("Q4-cleared-runs-nothing", map[string]bool{"acquire": true, "cleared-runs-nothing": true})
	c.Min("Q4-cleared-runs-nothing", 24)
	// Q5
	c.ruleModelTable("Q5-exec-model")
	// Q6
	c.ruleConstruction("Q6-instances-alike")
	// every management operation publishes by storing into the rule builders of gp.rbSlice; an execution
	// follows it only if the request runs on that very builder: prepare* bind gw.rulebuilder =
	// gp.rbSlice[gw.tag] on every request (the binding obligation of C06-P2) -- a private builder that
	// copied the container pointer once keeps running the rule set of its first request
	c.only = func(key string) bool { return strings.HasSuffix(key, "#own-rulebuilder") }
	c.ruleLifecycleHelpers("Q10-instances-run-the-published-builder")
	c.only = nil
	c.Min("Q10-instances-run-the-published-builder", 2)
	// what a request on an emptied pool gets back are the results of the rules installed now: none. Every
	// engine method starts from a fresh result map before anything else, also before its "no rule" error
	// return (C11-M1) -- otherwise the instance hands back the results of rules that were removed since
	c.ruleM1("Q11-no-results-of-removed-rules", c.engineExecFns())
	c.Min("Q11-no-results-of-removed-rules", 21)
	// RemoveRules of the pool applies the builder's removal to the master and to every instance: what
	// the queries and the executions see afterwards is what that removal leaves installed (shared with C08-H6)
	c.ruleFullBuildAndRemoval("Q7-removal-reinstalls")
	c.ruleQ8("Q8-installed-containers-complete")
	// the pool's incremental update edits the name map, the sorted list and the index of one container:
	// queries read the first, executions the second; they agree only if the merge keeps the three in
	// step (the merge model of C08-H2..H5 on the pool's own copy of the merge)
	if f := c.MustFn("Q9-incremental-merge-in-step", "engine", "", "updateIncremental"); f != nil {
		c.mergeModel("Q9-incremental-merge-in-step", f)
	}
	c.Min("Q9-incremental-merge-in-step", 12)
	// ... and inserts where the binary search over the descending list says (C08-H1b)
	c.ruleBinarySearch("Q9-binary-search-descending")
	c.Min("Q9-binary-search-descending", 3)
	// an update whose text does not compile denotes no change: the pool's own pipeline walks the tree
	// with the listener and tests the three error lists after they can have been filled, before it
	// hands a container on (the pipeline rule of C10-K1 on the pool's copy) -- a listener error tested
	// before the walk lets the rules compiled so far be merged and the rest be dropped
	c.only = func(key string) bool {
		return !strings.HasPrefix(key, "RuleBuilder.") && key != "pipelines" && (strings.Contains(key, "-errors-checked") || strings.HasSuffix(key, "#walk") || strings.HasSuffix(key, "#fresh-container"))
	}
	c.rulePipelines("Q12-update-refused-unless-compiled")
	c.only = nil
	c.Min("Q12-update-refused-unless-compiled", 5)
	// the rule set a text denotes is every rule written in it: the listener hands each node it takes off its
	// stack on to the parent or the container on every way to the end of the handler (C10-K6) -- a rule
	// "with nothing to do" left out is missing from the queries and leaves the rule it replaces running
	// what an instance executes is looked up in the container its builder holds now: the engine object keeps
	// no compiled rules from one call to the next (C07-U7) -- a selection remembered per builder pointer
	// outlives every update, the builder of an instance being the same object for the life of the pool
	c.ruleEngineKeepsNoRules("Q14-engine-keeps-no-rules-between-calls")
	c.Min("Q14-engine-keeps-no-rules-between-calls", 1)
	c.ruleListenerAttach("Q13-every-rule-of-the-text-installed")
	c.Min("Q13-every-rule-of-the-text-installed", 6)
}

// model constants of package engine
func (c *Ctx) modelConsts() map[string]int64 {
	out := map[string]int64{}
	sp := c.SSA[pEngine]
	for _, n := range []string{"SortModel", "ConcurrentModel", "MixModel", "InverseMixModel"} {
		if nc, ok := sp.Members[n].(*ssa.NamedConst); ok {
			if v, ok := constant.Int64Val(nc.Value.Value); ok {
				out[n] = v
			}
		}
	}
	return out
}

func (c *Ctx) ruleModelTable(rule string) {
	mc := c.modelConsts()
	if len(mc) != 4 {
		c.Lost(rule, "the four execution-model constants")
		return
	}
	byVal := map[int64]string{}
	for n, v := range mc {
		byVal[v] = n
	}
	// validation in SetExecModel and NewGenginePool: the model is compared != with exactly the four constants
	for _, fs := range [][3]string{{"engine", "GenginePool", "SetExecModel"}, {"engine", "", "NewGenginePool"}} {
		f := c.MustFn(rule, fs[0], fs[1], fs[2])
		if f == nil {
			continue
		}
		x := c.Index(f)
		var em *ssa.Parameter
		for _, p := range f.Params {
			if b, ok := p.Type().Underlying().(*types.Basic); ok && b.Kind() == types.Int {
				em = p
			}
		}
		// the values of the model for which the function gets to store it: the
		// control flow is explored with the parameter fixed to each candidate
		// (however the validation is written: != chain, switch, helper)
		var stores []*ssa.Store
		eachInstr(f, func(in ssa.Instruction) {
			if st, ok := in.(*ssa.Store); ok {
				if fa, ok := st.Addr.(*ssa.FieldAddr); ok && fieldOf(fa).Name() == "execModel" && structName(fa.X.Type()) == "GenginePool" {
					stores = append(stores, st)
				}
			}
		})
		isEm := func(v ssa.Value) bool { return em != nil && x.Origin(v) == ssa.Value(em) }
		var got []string
		okSet := len(stores) > 0
		for k := int64(-2); k <= 9; k++ {
			reach := x.reachUnder(f, isEm, k)
			stored := false
			for _, st := range stores {
				if reach[st.Block()] {
					stored = true
				}
			}
			if stored {
				got = append(got, fmt.Sprint(k))
			}
			if stored != (byVal[k] != "") {
				okSet = false
			}
		}
		// the rejecting edge returns an error, the accepting one stores the model
		c.Check(rule, fnName(f)+"#accepts-exactly-four", okSet, f.Pos(), "the model is stored for the values %v among -2..9 (want exactly the four constants 1..4)", got)
	}
	// dispatch tables
	table := map[string]map[string]string{
		"ExecuteRulesWithSpecifiedEM":               {"SortModel": "Execute", "ConcurrentModel": "ExecuteConcurrent", "MixModel": "ExecuteMixModel", "InverseMixModel": "ExecuteInverseMixModel"},
		"ExecuteRulesWithMultiInputWithSpecifiedEM": {"SortModel": "Execute", "ConcurrentModel": "ExecuteConcurrent", "MixModel": "ExecuteMixModel", "InverseMixModel": "ExecuteInverseMixModel"},
		"ExecuteSelectedWithSpecifiedEM":            {"SortModel": "ExecuteSelectedRules", "ConcurrentModel": "ExecuteSelectedRulesConcurrent", "MixModel": "ExecuteSelectedRulesMixModel", "InverseMixModel": "ExecuteSelectedRulesInverseMixModel"},
	}
	for _, f := range c.poolExecFns() {
		p := c.poolModel(f)
		x := p.x
		gp := ssa.Value(f.Params[0])
		if tb, isEM := table[f.Name()]; isEM {
			isModel := func(v ssa.Value) bool {
				b, is := x.isFieldLoad(v, "GenginePool", "execModel")
				return is && x.Origin(b) == gp
			}
			for model, want := range tb {
				key := fmt.Sprintf("GenginePool.%s#%s", f.Name(), model)
				// with gp.execModel fixed to this model, exactly the wanted engine method is reachable
				reach := x.reachUnder(f, isModel, mc[model])
				var called []string
				seenC := map[string]bool{}
				var at token.Pos = f.Pos()
				for _, ec := range p.engineCalls {
					if reach[ec.Block()] {
						n := ec.Call.StaticCallee().Name()
						if !seenC[n] {
							seenC[n] = true
							called = append(called, n)
						}
						if n != want {
							at = ec.Pos()
						}
					}
				}
				sort.Strings(called)
				c.Check(rule, key, len(called) == 1 && called[0] == want, at, "with model %s the pool can call %v; it must dispatch to (*Gengine).%s only", model, called, want)
			}
			continue
		}
		// same-name dispatch with arguments in place
		key := "GenginePool." + f.Name() + "#same-name"
		if len(p.engineCalls) != 1 {
			c.Check(rule, key, false, f.Pos(), "expected one engine call, found %d", len(p.engineCalls))
			continue
		}
		ec := p.engineCalls[0]
		cal := ec.Call.StaticCallee()
		okName := cal.Name() == f.Name()
		// parameters of the same kind keep their relative order
		okArgs := true
		why := ""
		kindOf := func(t types.Type) string {
			switch u := t.Underlying().(type) {
			case *types.Basic:
				return u.Name()
			case *types.Slice:
				return "slice:" + types.TypeString(u.Elem(), nil)
			case *types.Pointer:
				return "ptr:" + structName(t)
			}
			return ""
		}
		poolBy := map[string][]ssa.Value{}
		for _, pp := range f.Params[1:] {
			if k := kindOf(pp.Type()); k != "" {
				poolBy[k] = append(poolBy[k], pp)
			}
		}
		engBy := map[string][]ssa.Value{}
		for _, a := range ec.Call.Args[1:] {
			k := kindOf(a.Type())
			if k == "ptr:RuleBuilder" || k == "" {
				continue
			}
			engBy[k] = append(engBy[k], x.Origin(a))
		}
		for k, args := range engBy {
			ps := poolBy[k]
			if len(ps) != len(args) {
				okArgs, why = false, fmt.Sprintf("%d %s argument(s) passed, the pool method has %d", len(args), k, len(ps))
				continue
			}
			for i := range args {
				if args[i] != ps[i] {
					okArgs, why = false, fmt.Sprintf("%s argument %d of the engine call is %s, want the pool method's %s", k, i+1, x.Describe(args[i]), x.Describe(ps[i]))
				}
			}
		}
		c.Check(rule, key, okName && okArgs, ec.Pos(), "the pool method must call (*Gengine).%s (calls %s) with its own arguments in place %s", f.Name(), cal.Name(), why)
	}
	_ = strings.Join
}

// ruleQ8: whatever the pool installs as a rule container (the master's or an instance's
// RuleBuilder.Kc) is a complete one: a container copied from another builder, the empty
// container of base.NewKnowledgeContext(), or one built in the installing function with its
// name map, sorted list and index all given. The parse-only container a compile step hands
// back (name map only) is never installed as it is: its list and index do not exist yet, so
// queries (name map) and executions / later merges (list, index) would disagree.
func (c *Ctx) ruleQ8(rule string) {
	n := 0
	for _, f := range c.AllFns {
		if f.Pkg == nil || f.Pkg.Pkg.Path() != pEngine {
			continue
		}
		x := c.Index(f)
		k := 0
		eachInstr(f, func(in ssa.Instruction) {
			st, ok := in.(*ssa.Store)
			if !ok || !isKcFieldAddr(st.Addr) {
				return
			}
			k++
			n++
			key := fmt.Sprintf("%s#install%d", fnName(f), k)
			okAll := true
			why := ""
			for _, pv := range x.ValuesAt(st.Val, st) {
				v := pv.V
				if v == nil || pv.Outside {
					okAll, why = false, "the zero value or a value assigned elsewhere"
					continue
				}
				switch t := x.Origin(v).(type) {
				case *ssa.UnOp:
					if t.Op == token.MUL && isKcFieldAddr(t.X) {
						continue // the container another builder holds
					}
					okAll, why = false, x.Describe(v)
				case *ssa.Call:
					if calleeIs(t, pBase, "", "NewKnowledgeContext") {
						continue
					}
					okAll, why = false, "the result of "+x.Describe(v)
				case *ssa.Alloc:
					// built here: all three parts given
					have := map[string]bool{}
					for _, r := range *t.Referrers() {
						if fa, isFA := r.(*ssa.FieldAddr); isFA {
							for _, r2 := range *fa.Referrers() {
								if s2, isSt := r2.(*ssa.Store); isSt && s2.Addr == ssa.Value(fa) {
									have[fieldOf(fa).Name()] = true
								}
							}
						}
					}
					if !(have["RuleEntities"] && have["SortRules"] && have["SortRulesIndexMap"]) {
						okAll, why = false, "a container built without its name map, sorted list and index all given"
					}
				default:
					okAll, why = false, x.Describe(v)
				}
			}
			c.Check(rule, key, okAll, st.Pos(), "the pool installs %s as a rule container: only a container held by another builder, the empty container, or one built here with name map, sorted list and index may be installed", orStr(why, "a complete container"))
		})
	}
	if n == 0 {
		c.Lost(rule, "stores of RuleBuilder.Kc in package engine")
	}
	c.Min(rule, 4)
}
