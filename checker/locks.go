package main

// locks.go — A5: must-hold locksets. A mutex is identified by the access path
// of its address (e.g. "gp.updateLock", "g.lock", "&errLock").

import (
	"go/types"
	"sort"

	"golang.org/x/tools/go/ssa"
)

type lockOp struct {
	in     ssa.Instruction
	mutex  string // canonical name
	kind   string // Lock, Unlock, RLock, RUnlock
	addr   ssa.Value
	defer_ bool
}

func isSyncType(t types.Type, name string) bool {
	if p, ok := t.(*types.Pointer); ok {
		t = p.Elem()
	}
	n, ok := t.(*types.Named)
	return ok && n.Obj().Pkg() != nil && n.Obj().Pkg().Path() == "sync" && n.Obj().Name() == name
}

// syncCall decodes calls of sync.Mutex/RWMutex/WaitGroup methods.
func syncCall(in ssa.Instruction) (typ, method string, recv ssa.Value, ok bool) {
	cc := callCommon(in)
	if cc == nil || cc.IsInvoke() {
		return
	}
	f := cc.StaticCallee()
	if f == nil || f.Signature.Recv() == nil || len(cc.Args) == 0 {
		return
	}
	rt := f.Signature.Recv().Type()
	for _, n := range []string{"Mutex", "RWMutex", "WaitGroup"} {
		if isSyncType(rt, n) {
			return n, f.Name(), cc.Args[0], true
		}
	}
	return
}

// mutexName canonicalises a mutex address: field path from a parameter /
// receiver, or the local variable's name.
func (x *FnIndex) mutexName(addr ssa.Value) string {
	addr = x.ResolveAddr(addr)
	switch t := addr.(type) {
	case *ssa.Alloc:
		return "local:" + t.Comment
	case *ssa.FieldAddr:
		fv := fieldOf(t)
		if fv == nil {
			return "?"
		}
		return structName(t.X.Type()) + "." + fv.Name()
	}
	return x.Describe(addr)
}

func (x *FnIndex) lockOps(fn *ssa.Function) []lockOp {
	var out []lockOp
	eachInstr(fn, func(in ssa.Instruction) {
		typ, m, recv, ok := syncCall(in)
		if !ok || (typ != "Mutex" && typ != "RWMutex") {
			return
		}
		switch m {
		case "Lock", "Unlock", "RLock", "RUnlock":
			_, isDefer := in.(*ssa.Defer)
			out = append(out, lockOp{in: in, mutex: x.mutexName(recv), kind: m, addr: recv, defer_: isDefer})
		}
	})
	return out
}

// heldAt returns the mutexes (canonical names) that are certainly held when
// `at` executes, considering only lock operations of the same function:
// on every path from the entry the last operation on the mutex before `at` is
// a Lock/RLock. Deferred unlocks release at function exit and do not count.
func (x *FnIndex) heldAt(at ssa.Instruction) map[string]string {
	fn := at.Parent()
	ops := map[ssa.Instruction]lockOp{}
	names := map[string]bool{}
	for _, op := range x.lockOps(fn) {
		if op.defer_ {
			continue
		}
		ops[op.in] = op
		names[op.mutex] = true
	}
	held := map[string]string{}
	for name := range names {
		// backward search
		type pt struct {
			b *ssa.BasicBlock
			i int
		}
		seen := map[*ssa.BasicBlock]bool{}
		work := []pt{{at.Block(), instrIdx(at)}}
		all := true
		kind := ""
		for len(work) > 0 && all {
			p := work[len(work)-1]
			work = work[:len(work)-1]
			hit := false
			for i := p.i - 1; i >= 0; i-- {
				if op, ok := ops[p.b.Instrs[i]]; ok && op.mutex == name {
					if op.kind == "Lock" || op.kind == "RLock" {
						if kind == "" || kind == op.kind {
							kind = op.kind
						} else {
							kind = "RLock"
						}
					} else {
						all = false
					}
					hit = true
					break
				}
			}
			if hit {
				continue
			}
			if len(p.b.Preds) == 0 {
				all = false
				break
			}
			for _, q := range p.b.Preds {
				if !seen[q] {
					seen[q] = true
					work = append(work, pt{q, len(q.Instrs)})
				}
			}
		}
		if all && kind != "" {
			held[name] = kind
		}
	}
	return held
}

func heldNames(h map[string]string) []string {
	var s []string
	for k := range h {
		s = append(s, k)
	}
	sort.Strings(s)
	return s
}

// releasedOnAllExits: after Lock `l` every path to a function exit passes an
// Unlock of the same mutex, or an Unlock of it is deferred after the Lock.
func (x *FnIndex) releasedOnAllExits(l lockOp) bool {
	fn := l.in.Parent()
	want := "Unlock"
	if l.kind == "RLock" {
		want = "RUnlock"
	}
	for _, op := range x.lockOps(fn) {
		if op.mutex == l.mutex && op.kind == want && op.defer_ && domInstr(l.in, op.in) {
			// a deferred unlock registered right after the lock covers every exit,
			// provided nothing exits between the two
			if _, found := pathExists(fn, l.in, isExit, func(in ssa.Instruction) bool { return in == op.in }); !found {
				return true
			}
		}
	}
	isUnlock := func(in ssa.Instruction) bool {
		for _, op := range x.lockOps(fn) {
			if op.in == in && op.mutex == l.mutex && op.kind == want && !op.defer_ {
				return true
			}
		}
		return false
	}
	_, found := pathExists(fn, l.in, isExit, isUnlock)
	return !found
}

// mayHeldAt returns the mutexes that are held on at least one path when `at`
// executes (the last operation on the mutex before `at` on that path is a lock).
func (x *FnIndex) mayHeldAt(at ssa.Instruction) map[string]string {
	fn := at.Parent()
	ops := map[ssa.Instruction]lockOp{}
	names := map[string]bool{}
	for _, op := range x.lockOps(fn) {
		if op.defer_ {
			continue
		}
		ops[op.in] = op
		names[op.mutex] = true
	}
	held := map[string]string{}
	for name := range names {
		type pt struct {
			b *ssa.BasicBlock
			i int
		}
		seen := map[*ssa.BasicBlock]bool{}
		work := []pt{{at.Block(), instrIdx(at)}}
		for len(work) > 0 {
			p := work[len(work)-1]
			work = work[:len(work)-1]
			hit := false
			for i := p.i - 1; i >= 0; i-- {
				if op, ok := ops[p.b.Instrs[i]]; ok && op.mutex == name {
					if op.kind == "Lock" || op.kind == "RLock" {
						held[name] = op.kind
					}
					hit = true
					break
				}
			}
			if hit {
				continue
			}
			for _, q := range p.b.Preds {
				if !seen[q] {
					seen[q] = true
					work = append(work, pt{q, len(q.Instrs)})
				}
			}
		}
	}
	return held
}

func heldKinds(h map[string]string) []string {
	var s []string
	for k, v := range h {
		s = append(s, k+"("+v+")")
	}
	sort.Strings(s)
	return s
}
