#!/bin/bash
# Thorough tier of one property:
#  1. self-validation of the checker: every recorded single-edit variant of /repo for this property
#     (selftest/<prop>/*.diff and seeded/*/patch.diff) is applied to a scratch copy, compiled and analysed;
#     the number tried / detected / missed goes into the evidence (a missed variant is a weakness of the
#     checker, reported as SELFTEST-MISSED, it is not a violation of the property on /repo);
#  2. the property's rules on /repo's current tree, with the thorough-only rules enabled (C01: ATN decode).
# Exit code and VIOLATION lines come from step 2 only.
prop=$1
[ -z "$prop" ] && { echo "usage: tools/thorough.sh Cxx"; exit 2; }
cd /verif
out=$(tools/selftest.sh $prop 2>&1)
tried=$(echo "$out" | sed -n 's/^selftest: variants=\([0-9]*\) detected=\([0-9]*\)$/\1/p')
det=$(echo "$out" | sed -n 's/^selftest: variants=\([0-9]*\) detected=\([0-9]*\)$/\2/p')
missed=$(echo "$out" | grep -E '^(MISSED|SELFTEST-BROKEN)' | awk '{print $2}' | tr '\n' ' ')
echo "$out" | grep -E '^(MISSED|SELFTEST-BROKEN)' | sed 's/^/SELFTEST-/' 
echo "selftest $prop: variants=${tried:-0} detected=${det:-0} missed=[${missed}]"
export GVERIF_SELFTEST="{\"variants_tried\": ${tried:-0}, \"variants_detected\": ${det:-0}, \"missed\": \"${missed}\", \"what\": \"single-edit variants of /repo (compiling, suite-passing by construction or verified) applied to a scratch copy; detected = the property's check exits 1 with a VIOLATION on the variant\"}"
exec bin/gverif check $prop --tier thorough
