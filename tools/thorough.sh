#!/bin/bash
# Thorough tier of one property:
#  1. self-validation of the checker: every recorded single-edit variant of /repo for this property
#     (selftest/<prop>/*.diff and seeded/*/patch.diff) is applied to a scratch copy, compiled and analysed;
#     the number tried / detected / missed goes into the evidence (a missed variant is a weakness of the
#     checker, reported as SELFTEST-MISSED, it is not a violation of the property on /repo);
#  1b. the other direction: every recorded behaviour-preserving refactoring of /repo (refactors/*.diff) is
#     applied to a scratch copy and this property's check must stay silent on it; silent / alarmed counts go
#     into the evidence (an alarm there is a false alarm of the checker, reported as REFACTEST-FALSE-ALARM);
#  2. the property's rules on /repo's current tree, with the thorough-only rules enabled (C01: ATN decode).
# Exit code and VIOLATION lines come from step 2 only.
prop=$1
[ -z "$prop" ] && { echo "usage: tools/thorough.sh Cxx"; exit 2; }
cd /verif
out=$(tools/selftest.sh $prop 2>&1)
tried=$(echo "$out" | sed -n 's/^selftest: variants=\([0-9]*\) detected=\([0-9]*\)$/\1/p')
det=$(echo "$out" | sed -n 's/^selftest: variants=\([0-9]*\) detected=\([0-9]*\)$/\2/p')
missed=$(echo "$out" | grep -E '^(MISSED|SELFTEST-BROKEN)' | awk '{print $2}' | tr '\n' ' ')
echo "$out" | grep -E '^(MISSED|SELFTEST-BROKEN)' | sed 's/^/SELFTEST-/' 
echo "selftest $prop: variants=${tried:-0} detected=${det:-0} missed=[${missed}]"
export GVERIF_SELFTEST="{\"variants_tried\": ${tried:-0}, \"variants_detected\": ${det:-0}, \"missed\": \"${missed}\", \"what\": \"single-edit variants of /repo (compiling, suite-passing by construction or verified) applied to a scratch copy; detected = the property's check exits 1 with a VIOLATION on the variant\"}"
rout=$(tools/refactest.sh --prop $prop 2>&1)
rn=$(echo "$rout" | sed -n 's/^refactest: refactorings=\([0-9]*\) silent=\([0-9]*\)$/\1/p')
rs=$(echo "$rout" | sed -n 's/^refactest: refactorings=\([0-9]*\) silent=\([0-9]*\)$/\2/p')
ralarm=$(echo "$rout" | grep -E '^(FALSE-ALARM|REFACTEST-BROKEN)' | awk '{print $2}' | tr -d ':' | tr '\n' ' ')
echo "$rout" | grep -E '^(FALSE-ALARM|REFACTEST-BROKEN)' | sed 's/^/REFACTEST-/'
echo "refactest $prop: refactorings=${rn:-0} silent=${rs:-0} alarmed=[${ralarm}]"
export GVERIF_REFACTEST="{\"refactorings_tried\": ${rn:-0}, \"silent\": ${rs:-0}, \"alarmed\": \"${ralarm}\", \"what\": \"behaviour-preserving refactorings of /repo written by independent sub-agents (compile, pinned suite passes), applied to a scratch copy; silent = this property's check exits 0 on the refactored copy\"}"
exec bin/gverif check $prop --tier thorough
