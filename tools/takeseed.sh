#!/bin/bash
# tools/takeseed.sh <worktree> <prop> <name> "<what it needs to manifest>"
# Verifies a sub-agent's seeded change independently and, if everything holds, stores it under /verif/seeded/<name>/:
#   - the patch applies to /repo's HEAD, the tree compiles, the pinned suite still passes (77/77),
#   - the demonstration fails with the change and passes without it,
#   - then runs the property's check on the patched copy and records whether it was detected.
set -u
export GOFLAGS=-mod=mod GOPROXY=off GOSUMDB=off GOTOOLCHAIN=local
wt=$1; prop=$2; name=$3; needs=$4; race=${5:-}
RACE=""; [ "$race" = race ] && RACE="-race"
[ -f "$wt/seed_patch.diff" ] || { echo "no seed_patch.diff in $wt"; exit 2; }
[ -f "$wt/seeddemo/demo_test.go" ] || { echo "no seeddemo/demo_test.go in $wt"; exit 2; }
S=$(mktemp -d /tmp/takeseed.XXXXXX); trap 'rm -rf "$S"' EXIT
mkdir -p $S/repo && rsync -a --exclude .git /repo/ $S/repo/
mkdir -p $S/repo/seeddemo && cp $wt/seeddemo/*.go $S/repo/seeddemo/
cd $S/repo
echo "== demo WITHOUT the change"
go test $RACE -count=1 -timeout 180s ./seeddemo/ > $S/clean.out 2>&1; cleanrc=$?
tail -3 $S/clean.out
if ! patch -p1 -s --no-backup-if-mismatch < $wt/seed_patch.diff; then echo "PATCH DOES NOT APPLY"; exit 1; fi
if ! go build ./builder/... ./context/... ./engine/... ./internal/... 2>$S/build.err; then echo "DOES NOT COMPILE"; cat $S/build.err | head; exit 1; fi
echo "== demo WITH the change"
go test $RACE -count=1 -timeout 180s ./seeddemo/ > $S/seeded.out 2>&1; seedrc=$?
tail -5 $S/seeded.out
echo "== pinned suite WITH the change"
rm -rf $S/repo/seeddemo.keep; mv $S/repo/seeddemo $S/seeddemo.keep
/verif/tools/suite.sh $S/repo; suiterc=$?
echo "clean demo rc=$cleanrc seeded demo rc=$seedrc suite rc=$suiterc"
if [ $cleanrc -ne 0 ] || [ $seedrc -eq 0 ] || [ $suiterc -ne 0 ]; then echo "SEED REJECTED"; exit 1; fi
echo "== checker on the seeded tree"
mkdir -p $S/verif; cp /verif/known_findings.txt /verif/properties.jsonl $S/verif/
out=$(GVERIF_REPO=$S/repo GVERIF_DIR=$S/verif /verif/bin/gverif check $prop 2>&1); rc=$?
echo "$out" | grep FAIL | head -5 | cut -c1-260
det=false; [ $rc -eq 1 ] && det=true
others=""
for p in $(/verif/bin/gverif list); do
  [ $p = $prop ] && continue
  o=$(GVERIF_REPO=$S/repo GVERIF_DIR=$S/verif /verif/bin/gverif check $p 2>&1); [ $? -eq 1 ] && others="$others $p"
done
echo "detected by $prop: $det; also flagged by:$others"
d=/verif/seeded/$name; mkdir -p $d
cp $wt/seed_patch.diff $d/patch.diff; cp $wt/seeddemo/demo_test.go $d/demo_test.go.txt
python3 - "$d/meta.json" "$prop" "$name" "$needs" "$det" "$others" "$(tail -3 $S/seeded.out | tr '\n' ' ' | cut -c1-300)" <<'PY'
import json,sys
path,prop,name,needs,det,others,fail=sys.argv[1:8]
json.dump({"property":prop,"name":name,"needs_to_manifest":needs,
 "verified":["patch applies to /repo HEAD and product packages compile","pinned suite 77/77 still passes with the change (tools/suite.sh)","demo_test.go passes without the change and fails with it: "+fail],
 "ran":["tools/takeseed.sh (scratch copy under /tmp, removed afterwards)"],
 "detected_by_property_check":det=="true","also_flagged_by":others.split(),
 "source":"independent sub-agent given only the property text and a scratch worktree"},open(path,'w'),indent=1)
PY
echo "stored $d"
