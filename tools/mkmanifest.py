#!/usr/bin/env python3
"""Regenerates /verif/MANIFEST.json from the table below (kept in one place so
that the manifest stays valid while properties are being added)."""
import json, os, sys
HERE = os.path.dirname(os.path.dirname(os.path.abspath(__file__)))
sys.path.insert(0, os.path.join(HERE, "tools"))
from claims import CLAIMS, NOT_APPLICABLE

ENV = "GOFLAGS=-mod=vendor GOPROXY=off GOSUMDB=off GOTOOLCHAIN=local"
m = {
 "version": 1,
 "setup_cmd": f"cd /verif/checker && {ENV} go build -o ../bin/gverif .",
 "hooks": {
  "guard": "verif",
  "enable": "none needed: the checks analyse /repo's source (type-checked AST, go/ssa) and never build or run gengine; the loader passes -tags=verif so that guarded files, if any were ever added, are analysed too",
  "baseline_off_cmd": "cd /repo && GOFLAGS=-mod=mod GOPROXY=off go test -vet=off -count=1 -timeout 25m ./...",
  "source_commits": [],
  "add_only": True,
 },
 "engines": [{
  "name": "gverif",
  "path": "checker/",
  "serves_properties": sorted(CLAIMS.keys()),
  "kind_free_text": "repository-specific static analyser over go/types + go/ssa (x/tools v0.29.0, vendored): dominance/guard, path, lockset, who-may-write and table-agreement rules instantiated per property",
 }],
 "checks": [],
 "not_applicable": [],
 "notes": "All checks are static: they load /repo's current working tree with go/packages, build SSA and decide rule instances; nothing is executed. Level 'other' everywhere: each check decides structural necessary conditions of its property exhaustively over the source, see DESIGN.md section 6.",
}
for pid in sorted(CLAIMS):
    c = CLAIMS[pid]
    m["checks"].append({
     "property_id": pid,
     "quick_cmd": f"bin/gverif check {pid} --tier quick",
     "thorough_cmd": f"tools/thorough.sh {pid}",
     "evidence_file": f"/verif/evidence/{pid}.json",
     "replay_cmd_template": "bin/gverif explain {path}",
     "engine": "gverif",
     "level_claimed": {"category": "other", "text": c["text"], "design_ref": c.get("design_ref", "DESIGN.md section 6, " + pid)},
     "level_note": c["note"],
     "technique": c["technique"],
    })
for pid in sorted(NOT_APPLICABLE):
    if pid not in CLAIMS:
        m["not_applicable"].append({"property_id": pid, "reason": NOT_APPLICABLE[pid]})
json.dump(m, open(os.path.join(HERE, "MANIFEST.json"), "w"), indent=1)
print("claims:", sorted(CLAIMS), "n/a:", [x["property_id"] for x in m["not_applicable"]])
