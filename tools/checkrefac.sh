#!/bin/bash
# tools/checkrefac.sh <worktree-with-refac_patch.diff> : applies a behaviour-preserving refactoring to a scratch
# copy of /repo, verifies build + pinned suite, runs every check and lists alarms (each one is a false alarm to fix).
set -u
export GOFLAGS=-mod=mod GOPROXY=off GOSUMDB=off GOTOOLCHAIN=local
wt=$1
S=$(mktemp -d /tmp/checkrefac.XXXXXX); trap 'rm -rf "$S"' EXIT
mkdir -p $S/repo $S/verif && rsync -a --exclude .git /repo/ $S/repo/ && cp /verif/known_findings.txt /verif/properties.jsonl $S/verif/
cd $S/repo
patch -p1 -s --no-backup-if-mismatch < $wt/refac_patch.diff || { echo "PATCH DOES NOT APPLY"; exit 1; }
go build ./builder/... ./context/... ./engine/... ./internal/... || { echo "DOES NOT COMPILE"; exit 1; }
if [ "${2:-}" != nosuite ]; then /verif/tools/suite.sh $S/repo; fi
echo "changed lines: $(grep -c '^[+-][^+-]' $wt/refac_patch.diff)"
GVERIF_REPO=$S/repo GVERIF_DIR=$S/verif ${GVERIF_BIN:-/verif/bin/gverif} all 2>&1 | grep -E "FAIL" | cut -c1-330
echo "alarms: $(GVERIF_REPO=$S/repo GVERIF_DIR=$S/verif ${GVERIF_BIN:-/verif/bin/gverif} all 2>&1 | grep -c '^VIOLATION')"
