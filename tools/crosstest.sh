#!/bin/bash
# tools/crosstest.sh [-j N] : detection under refactoring. Every breaking variant (selftest/<prop>/*.diff,
# seeded/*/patch.diff) is applied ON TOP OF every behaviour-preserving refactoring (refactors/*.diff) that
# touches one of the same files; where both patches apply and the result type-checks, the property's check
# must still report the violation. Output: one line per pair (detected / MISSED / skipped:<why>), summary last.
set -u
export GOFLAGS=-mod=mod GOPROXY=off GOSUMDB=off GOTOOLCHAIN=local
J=16; [ "${1:-}" = "-j" ] && { J=$2; shift 2; }
BIN=${GVERIF_BIN:-/verif/bin/gverif}
W=$(mktemp -d /tmp/crosstest.XXXXXX); trap 'rm -rf "$W"' EXIT
one() {
  r=$1; d=$2; prop=$3; name=$4; W=$5; BIN=$6
  S=$(mktemp -d $W/t.XXXXXX)
  mkdir -p $S/repo $S/verif; cp /verif/known_findings.txt /verif/properties.jsonl $S/verif/
  rsync -a --exclude .git --exclude test /repo/ $S/repo/
  rn=$(basename $r .diff)
  if ! (cd $S/repo && patch -p1 -s --no-backup-if-mismatch < $r >/dev/null 2>&1); then echo "skipped:refactor-does-not-apply $rn + $name"; rm -rf $S; return; fi
  if ! (cd $S/repo && patch -p1 -s -F1 --no-backup-if-mismatch < $d >/dev/null 2>&1); then echo "skipped:variant-does-not-apply $rn + $name"; rm -rf $S; return; fi
  out=$(GVERIF_REPO=$S/repo GVERIF_DIR=$S/verif $BIN check $prop 2>&1); code=$?
  if echo "$out" | grep -q "anchor-lost:load"; then echo "skipped:does-not-compile $rn + $name"
  elif [ $code -eq 1 ] && echo "$out" | grep -q "^VIOLATION property=$prop"; then echo "detected $rn + $name"
  else echo "MISSED $rn + $name"; fi
  rm -rf $S
}
export -f one
files_of() { grep -E '^\+\+\+ ' $1 | sed -E 's#^\+\+\+ (b/)?##; s#\t.*##' | sort -u; }
: > $W/jobs
for r in /verif/refactors/*.diff; do
  rf=$(files_of $r)
  for d in /verif/selftest/*/*.diff $(ls /verif/seeded/*/patch.diff); do
    if [[ "$d" == */seeded/* ]]; then
      prop=$(python3 -c "import json;print(json.load(open('$(dirname $d)/meta.json'))['property'])"); name=seeded/$(basename $(dirname $d))
    else
      prop=$(basename $(dirname $d)); name=$prop/$(basename $d .diff)
    fi
    # variants that already contain a refactoring are not combined again
    [ $(grep -c '^[+-][^+-]' $d) -gt 60 ] && continue
    hit=0; for f in $(files_of $d); do echo "$rf" | grep -qx "$f" && hit=1; done
    [ $hit -eq 1 ] && echo "$r $d $prop $name" >> $W/jobs
  done
done
echo "pairs: $(wc -l < $W/jobs)"
cat $W/jobs | xargs -P $J -L 1 bash -c 'one $0 $1 $2 $3 '"$W $BIN" | sort > $W/out
cat $W/out
echo "crosstest: pairs=$(wc -l < $W/jobs) detected=$(grep -c '^detected' $W/out) missed=$(grep -c '^MISSED' $W/out) skipped=$(grep -c '^skipped' $W/out)"
