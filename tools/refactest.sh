#!/bin/bash
# tools/refactest.sh [-j N] [--prop Cxx] [name ...] : false-alarm regression (with --prop only that property's check is run). Every /verif/refactors/*.diff is a behaviour-preserving
# refactoring of /repo (extracted helpers, rewritten conditions, renamed locals, reshaped loops ...) on which the
# pinned suite still passes. Each is applied to a scratch copy of /repo; every check must stay silent on it. N at a time (default 8).
set -u
export GOFLAGS=-mod=mod GOPROXY=off GOSUMDB=off GOTOOLCHAIN=local
BIN=${GVERIF_BIN:-/verif/bin/gverif}
J=8; [ "${1:-}" = "-j" ] && { J=$2; shift 2; }
what=all
if [ "${1:-}" = "--prop" ]; then what="check $2"; shift 2; fi
S=$(mktemp -d /tmp/refactest.XXXXXX); trap 'rm -rf "$S"' EXIT
one() {
  d=$1; S=$2; BIN=$3; what="$4"
  name=$(basename $d .diff)
  T=$(mktemp -d $S/t.XXXXXX); mkdir -p $T/repo $T/verif; cp /verif/known_findings.txt /verif/properties.jsonl $T/verif/
  rsync -a --exclude .git --exclude test /repo/ $T/repo/
  if ! (cd $T/repo && patch -p1 -s --no-backup-if-mismatch < $d >/dev/null 2>&1); then echo "REFACTEST-BROKEN $name: patch does not apply"; rm -rf $T; return; fi
  # (with --prop the separate compile step is skipped: the checker type-checks the copy itself and reports a tree that does not load)
  if [ "$what" = all ] && ! (cd $T/repo && go build ./builder/... ./context/... ./engine/... ./internal/... 2>$T/err); then echo "REFACTEST-BROKEN $name: does not compile: $(head -2 $T/err | tr '\n' ' ')"; rm -rf $T; return; fi
  out=$(GVERIF_REPO=$T/repo GVERIF_DIR=$T/verif $BIN $what 2>&1); code=$?
  a=$(echo "$out" | grep -c '^VIOLATION')
  if [ $code -ne 0 ] || [ $a -ne 0 ]; then
    echo "FALSE-ALARM $name: $a alarm(s)$(echo; echo "$out" | grep FAIL | cut -c1-260 | head -8)"
  else
    echo "silent     $name"
  fi
  rm -rf $T
}
export -f one
for d in /verif/refactors/*.diff; do
  name=$(basename $d .diff)
  if [ $# -gt 0 ] && ! echo " $* " | grep -q " $name "; then continue; fi
  echo $d
done | xargs -P $J -I{} bash -c 'one "$0" "'$S'" "'$BIN'" "'"$what"'"' {} | tee $S/out
n=$(grep -c -E '^(silent|FALSE-ALARM)' $S/out); nalarm=$(grep -c '^FALSE-ALARM' $S/out)
echo "refactest: refactorings=$n silent=$((n-nalarm))"
if grep -q -E '^(FALSE-ALARM|REFACTEST-BROKEN)' $S/out; then exit 1; fi
exit 0
