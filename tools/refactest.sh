#!/bin/bash
# tools/refactest.sh [--prop Cxx] [name ...] : false-alarm regression (with --prop only that property's check is run). Every /verif/refactors/*.diff is a behaviour-preserving
# refactoring of /repo (extracted helpers, rewritten conditions, renamed locals, reshaped loops ...) on which the
# pinned suite still passes. Each is applied to a scratch copy of /repo; every check must stay silent on it.
set -u
export GOFLAGS=-mod=mod GOPROXY=off GOSUMDB=off GOTOOLCHAIN=local
BIN=${GVERIF_BIN:-/verif/bin/gverif}
what=all
if [ "${1:-}" = "--prop" ]; then what="check $2"; shift 2; fi
S=$(mktemp -d /tmp/refactest.XXXXXX); trap 'rm -rf "$S"' EXIT
mkdir -p $S/verif && cp /verif/known_findings.txt /verif/properties.jsonl $S/verif/
fail=0; n=0; nalarm=0
for d in /verif/refactors/*.diff; do
  name=$(basename $d .diff)
  if [ $# -gt 0 ] && ! echo " $* " | grep -q " $name "; then continue; fi
  rm -rf $S/repo; mkdir -p $S/repo; rsync -a --exclude .git --exclude test /repo/ $S/repo/
  if ! (cd $S/repo && patch -p1 -s --no-backup-if-mismatch < $d >/dev/null 2>&1); then echo "REFACTEST-BROKEN $name: patch does not apply"; fail=1; continue; fi
  # (with --prop the separate compile step is skipped: the checker type-checks the copy itself and reports a tree that does not load)
  if [ "$what" = all ] && ! (cd $S/repo && go build ./builder/... ./context/... ./engine/... ./internal/... 2>$S/err); then echo "REFACTEST-BROKEN $name: does not compile: $(head -2 $S/err)"; fail=1; continue; fi
  n=$((n+1))
  out=$(GVERIF_REPO=$S/repo GVERIF_DIR=$S/verif $BIN $what 2>&1); code=$?
  a=$(echo "$out" | grep -c '^VIOLATION')
  if [ $code -ne 0 ] || [ $a -ne 0 ]; then
    echo "FALSE-ALARM $name: $a alarm(s)"; echo "$out" | grep FAIL | cut -c1-260 | head -8; fail=1; nalarm=$((nalarm+1))
  else
    echo "silent     $name"
  fi
done
echo "refactest: refactorings=$n silent=$((n-nalarm))"
exit $fail
