#!/bin/bash
# helper: tools/mkmut.sh <prop> <name> <file> <python-expr over s>   — creates selftest/<prop>/<name>.diff from an edit of /repo/<file>
set -e
prop=$1; name=$2; file=$3; expr=$4
T=$(mktemp -d /tmp/mkmut.XXXXXX); trap 'rm -rf $T' EXIT
mkdir -p $T/a/$(dirname $file) $T/b/$(dirname $file)
cp /repo/$file $T/a/$file
python3 - "$T/a/$file" "$T/b/$file" "$expr" <<'PY'
import sys
s=open(sys.argv[1]).read()
t=eval(sys.argv[3])
assert t!=s, "edit changed nothing"
open(sys.argv[2],'w').write(t)
PY
mkdir -p /verif/selftest/$prop
(cd $T && diff -u a/$file b/$file > /verif/selftest/$prop/$name.diff) || true
echo "wrote selftest/$prop/$name.diff ($(grep -c '^[+-][^+-]' /verif/selftest/$prop/$name.diff) changed lines)"
