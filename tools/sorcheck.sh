#!/bin/bash
# tools/sorcheck.sh <scratch-copy> <refactor.diff> <prop> : a sub-agent produced a breaking change in a scratch copy
# that already contains a refactoring. Verifies the demo (fails with / passes without the change), the pinned suite,
# and runs the property's check on refactoring+change. Prints the verdict.
set -u
export GOFLAGS=-mod=mod GOPROXY=off GOSUMDB=off GOTOOLCHAIN=local
d=$1; ref=$2; prop=$3
BIN=${GVERIF_BIN:-/verif/bin/gverif}
[ -f $d/seed_patch.diff ] || { echo "NO-PATCH $d"; exit 1; }
S=$(mktemp -d /tmp/sorcheck.XXXXXX); trap 'rm -rf "$S"' EXIT
mkdir -p $S/repo $S/verif; cp /verif/known_findings.txt /verif/properties.jsonl $S/verif/
rsync -a --exclude .git /repo/ $S/repo/
(cd $S/repo && patch -p1 -s --no-backup-if-mismatch < $ref) || { echo "REFACTOR-DOES-NOT-APPLY"; exit 1; }
mkdir -p $S/repo/seeddemo; cp $d/seeddemo/*.go $S/repo/seeddemo/ 2>/dev/null
without=$(cd $S/repo && go test -count=1 -timeout 180s ./seeddemo/ 2>&1 | tail -1)
(cd $S/repo && patch -p1 -s --no-backup-if-mismatch < $d/seed_patch.diff) || { echo "SEED-DOES-NOT-APPLY"; exit 1; }
(cd $S/repo && go build ./builder/... ./context/... ./engine/... ./internal/... ) || { echo "DOES-NOT-COMPILE"; exit 1; }
with=$(cd $S/repo && go test -count=1 -timeout 180s ./seeddemo/ 2>&1 | grep -E "^(FAIL|ok|---)" | tr '\n' ' ' | cut -c1-200)
rm -rf $S/repo/seeddemo
suite=$(/verif/tools/suite.sh $S/repo 2>&1 | tail -1)
echo "demo without: $without"
echo "demo with:    $with"
echo "suite:        $suite"
out=$(GVERIF_REPO=$S/repo GVERIF_DIR=$S/verif $BIN check $prop 2>&1); code=$?
if [ $code -eq 1 ]; then echo "DETECTED by $prop: $(echo "$out" | grep FAIL | head -2 | cut -c1-240)"; else echo "MISSED by $prop"; GVERIF_REPO=$S/repo GVERIF_DIR=$S/verif $BIN all 2>&1 | grep FAIL | head -3 | cut -c1-200; fi
# keep the combined diff for the record
(cd $S && mkdir a && rsync -a --exclude .git --exclude test /repo/ a/ && rsync -a --exclude test repo/ b/ && diff -ruN a b > $d/combined.diff; true)
