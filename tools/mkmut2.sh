#!/bin/bash
# tools/mkmut2.sh <prop> <name> <refactor.diff> <file> "<python expr over s>"
# A breaking edit ON TOP OF a behaviour-preserving refactoring: the refactoring is applied to a scratch copy
# of /repo, then the edit; the combined diff against /repo becomes selftest/<prop>/<name>.diff. These variants
# check that a defect hidden inside an extracted helper (a shape the rules were not written against) is found.
set -e
prop=$1; name=$2; ref=$3; file=$4; expr=$5
T=$(mktemp -d /tmp/mkmut2.XXXXXX); trap 'rm -rf $T' EXIT
mkdir -p $T/a $T/b
rsync -a --exclude .git --exclude test /repo/ $T/a/
rsync -a --exclude .git --exclude test /repo/ $T/b/
(cd $T/b && patch -p1 -s --no-backup-if-mismatch < $ref)
python3 - "$T/b/$file" "$expr" <<'PY'
import sys
s=open(sys.argv[1]).read()
t=eval(sys.argv[2])
assert t!=s, "edit changed nothing"
open(sys.argv[1],'w').write(t)
PY
mkdir -p /verif/selftest/$prop
(cd $T && diff -ruN a b > /verif/selftest/$prop/$name.diff) || true
sed -i 's#^--- a/#--- a/#; s#^+++ b/#+++ b/#' /verif/selftest/$prop/$name.diff
echo "wrote selftest/$prop/$name.diff ($(grep -c '^[+-][^+-]' /verif/selftest/$prop/$name.diff) changed lines)"
