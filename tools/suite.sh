#!/bin/sh
# runs the pinned suite (guard off) on /repo (or $1) and compares with BASELINE.json stable_pass
R=${1:-/repo}
T=$(mktemp -d /tmp/suite.XXXXXX)
cd $R && GOFLAGS=-mod=mod GOPROXY=off GOSUMDB=off GOTOOLCHAIN=local go test -json -vet=off -count=1 -timeout 25m ./... > $T/suite.json 2>$T/suite.err
python3 - $T/suite.json <<'PY'
import json,sys
base=json.load(open('/root/.vp/BASELINE.json'))
want=set(base['stable_pass'])
got=set()
for l in open(sys.argv[1]):
    try: d=json.loads(l)
    except: continue
    if d.get('Action')=='pass' and d.get('Test') and '/' not in d['Test']:
        got.add(d['Package']+'::'+d['Test'])
miss=sorted(want-got)
print('baseline',len(want),'passed-now',len(got&want),'missing',miss)
import sys; sys.exit(1 if miss else 0)
PY
rc=$?
rm -rf $T
exit $rc
