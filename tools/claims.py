# Per-property claim texts for MANIFEST.json.  A property is listed in CLAIMS
# only once its check exists, is silent on the current tree and was seen to
# fire on a broken variant.
CLAIMS = {}

def claim(pid, text, note, technique):
    CLAIMS[pid] = {"text": text, "note": note, "technique": technique}

claim("C11",
 "Static, exhaustive over the source: decides the structural necessary conditions M1-M5 of the property for every execute method and every rule set (fresh result map dominates all executions/returns; every RuleEntity.Execute call site records (own RuleName, own value) under its own returned-flag and nowhere else; the returned-flag is true only for a return statement that evaluated successfully and is cleared by the recover at the rule entry; zero value maps to nil; the map is written only in addResult under g.lock). It does not compute values. Right level because the property quantifies over all rule sets, models and call sequences, which the rules cover by covering every code path that can write the map.",
 "Trusted: go/types + go/ssa (x/tools v0.29.0), Go memory model for sync.Mutex, reflect. Decides code shape, not runtime values; 'other' = sound structural necessary conditions, not a full functional proof.",
 "dominance + path + guard analysis over go/ssa (naive form) of the 21 Gengine.Execute* methods and the (value,error,flag) evaluators; lockset check of addResult")

_PENDING = "static check designed (DESIGN.md section 6) but not yet built/validated in this round; not claimed until its rules are exact"
NOT_APPLICABLE = {f"C{i:02d}": _PENDING for i in range(1, 21)}

claim("C04",
 "Static, exhaustive over the source: for every rule set and both error-policy values, decides the loop discipline of Execute, ExecuteWithStopTagDirect and the sorted selected variants (plus the error policy of the as-given pair): comparator direction of every sort of rule entities (10 sites), the order source of each loop (container list or a local slice sorted on all paths), the whole list is ranged, exactly one execution per iteration, the only exits are loop end / stop-on-error return / stop-tag break, failures are collected under continue-on-error, collected errors surface after the loop. Right level because order, exactly-once and the error policy are visible in the shape of one loop that every execution passes through.",
 "Trusted: go/types + go/ssa, sort.SliceStable. Does not evaluate rule bodies; does not prove the builder's incremental insertion keeps the list sorted (that is C08's clause).",
 "CFG path/guard analysis of the sequential rule loops (A3), table rule on sort comparators, typestate (sorted before ranged) over go/ssa")
