# Per-property claim texts for MANIFEST.json.  A property is listed in CLAIMS
# only once its check exists, is silent on the current tree and was seen to
# fire on a broken variant.
CLAIMS = {}

def claim(pid, text, note, technique):
    CLAIMS[pid] = {"text": text, "note": note, "technique": technique}

claim("C11",
 "Static, exhaustive over the source: decides the structural necessary conditions M1-M5 of the property for every execute method and every rule set (fresh result map dominates all executions/returns; every RuleEntity.Execute call site records (own RuleName, own value) under its own returned-flag and nowhere else; the returned-flag is true only for a return statement that evaluated successfully and is cleared by the recover at the rule entry; zero value maps to nil; the map is written only in addResult under g.lock). It does not compute values. Right level because the property quantifies over all rule sets, models and call sequences, which the rules cover by covering every code path that can write the map.",
 "Trusted: go/types + go/ssa (x/tools v0.29.0), Go memory model for sync.Mutex, reflect. Decides code shape, not runtime values; 'other' = sound structural necessary conditions, not a full functional proof.",
 "dominance + path + guard analysis over go/ssa (naive form) of the 21 Gengine.Execute* methods and the (value,error,flag) evaluators; lockset check of addResult")

_PENDING = "static check designed (DESIGN.md section 6) but not yet built/validated in this round; not claimed until its rules are exact"
NOT_APPLICABLE = {f"C{i:02d}": _PENDING for i in range(1, 21)}

claim("C04",
 "Static, exhaustive over the source: for every rule set and both error-policy values, decides the loop discipline of Execute, ExecuteWithStopTagDirect and the sorted selected variants (plus the error policy of the as-given pair): comparator direction of every sort of rule entities (10 sites), the order source of each loop (container list or a local slice sorted on all paths), the whole list is ranged, exactly one execution per iteration, the only exits are loop end / stop-on-error return / stop-tag break, failures are collected under continue-on-error, collected errors surface after the loop. Right level because order, exactly-once and the error policy are visible in the shape of one loop that every execution passes through.",
 "Trusted: go/types + go/ssa, sort.SliceStable. Does not evaluate rule bodies; does not prove the builder's incremental insertion keeps the list sorted (that is C08's clause).",
 "CFG path/guard analysis of the sequential rule loops (A3), table rule on sort comparators, typestate (sorted before ranged) over go/ssa")

claim("C05",
 "Static, for every goroutine interleaving: decides the fork/join shape of the 11 mix / inverse-mix / N-M functions (one worker per goroutine on a per-iteration copy of the loop element, Done on all paths, Add count equal to the goroutines started as a symbolic linear form, Wait on every path from the fan-out to any return / later execution / later fan-out / read of the error list, locked appends to the error list), the synchronous first/last rule and its partition with the fan-out slice, the N-M windows S[0:n) and S[n:n+m) with their parameter checks, the error policy of sorted stages and the gate between stages, and that every stage draws from a priority-ordered source. Right level: the barrier argument uses only the WaitGroup contract and program order, so it covers all schedules, which no finite set of runs can.",
 "Trusted: go/types + go/ssa, sync.WaitGroup contract, sort.SliceStable. Not decided: fairness/timing; rule bodies.",
 "fork/join pairing with symbolic length agreement (A4), CFG must-pass-through (barrier), guard analysis of stage policy, symbolic slice intervals for windows, over go/ssa")

claim("C12",
 "Static, for all rule sets and name lists: decides in the 11 ExecuteSelected* functions that the selected slice is built only from ok-edge hits of lookups of the caller's names, that a miss is never dereferenced, that nothing runs and an error is returned when nothing was selected (N-M: when a name is unknown or n+m != len(names)), that sorted variants sort on all paths and as-given variants never sort, and that every stage executes only elements of the selected slice (the whole of it for the plain variants). Right level: which rules run and in what order is decided by the shape of the selection loop, the sort call and the ranged slice.",
 "Trusted: go/types + go/ssa, Go map lookup, sort.SliceStable. Partition/window details of the mix and N-M selected variants are decided under C05.",
 "typestate (sorted / never sorted) and who-may-write analysis of the selected slice, guard analysis of the miss and empty edges, over go/ssa")

claim("C13",
 "Static, for every layering and interleaving: decides in ExecuteDAGModel the per-layer barrier (A4 with the enclosing layer loop's head as a barrier target), that the error list is tested after the join on every path to the next layer and a failure ends the call, that the per-layer slice is fresh per layer and filled from ok-edge hits of dag[i][j] for all i, j counted forward, that misses are skipped without dereference, and the result-map rules for this function. Right level: a missing Wait or a missing failure check is a missing node on a CFG path, visible without producing the schedule that exposes it.",
 "Trusted: go/types + go/ssa, sync.WaitGroup contract. Not decided: timing.",
 "fork/join + must-pass-through analysis (A4) with loop-head targets, counted-loop recognition, guard analysis, over go/ssa")

claim("C14",
 "Static, for all rule sets and tag positions: decides that the sorted stop-tag variants read the tag after each rule execution on every path to the next iteration and leave the loop at its normal exit, that the mix variant reads it after the first rule and gates every goroutine start on it, that each tagged function differs from its untagged sibling only by reads of the tag (branch-condition and call multisets), and that pool wrappers pass the caller's tag through. Right level: 'no further rule starts' is a reachability statement about the loop's CFG.",
 "Trusted: go/types + go/ssa. Not decided: races on the host's own Stag value.",
 "CFG must-pass-through / guard analysis (A3-T), sibling cross-check of condition and call multisets, argument identity, over go/ssa")

claim("C18",
 "Static, for every conc block and interleaving: decides in ConcStatement.Evaluate the Add/Done/Wait pairing with symbolic count agreement over the four child slices (exhaustive over the struct's slice fields), one worker per goroutine on a per-iteration copy, Done after the work and once, Wait on every path to any return or read of the error list, every worker error tested and appended under the mutex and surfaced after the join; that Statement.Evaluate runs the block synchronously; that every access to a map[string]reflect.Value (local store, injected table) is in package context under the matching mutex; that the listener attaches every child. Right level: 'the next statement sees everything' follows from the join shape under the Go memory model for all schedules.",
 "Trusted: go/types + go/ssa, sync contracts. Effects of the child statements themselves are C02/C03.",
 "fork/join analysis (A4) with symbolic length sums, lockset analysis (A5) of the two stores, over go/ssa")

claim("C06",
 "Static, for every interleaving of pool requests: decides the ownership hand-over that isolates requests (exclusive pop of a non-empty free list under the list lock and the exclusive outer lock; who may touch the lists / allocate wrappers), the request lifecycle template over all 24 pool execute methods (deferred clean-up registered right after the acquire, deleting exactly this request's keys from the wrapper's own data context before putting the same wrapper back once; engine call on the acquired wrapper's engine and rule builder with no pool lock held; result map read from that engine after the call), one private data context per instance bound through gw.tag, a fresh result map per call written only by addResult, and that every rule runs against the data context of its own call. Right level: isolation follows from ownership, which is a who-may-access property of the code, for every schedule.",
 "Trusted: go/types + go/ssa, sync contracts. Not decided: aliasing the host creates by injecting the same object into several requests.",
 "typestate/ownership and template (sibling) cross-check over go/ssa, lockset analysis (A5), who-may-write analysis (A6)")

claim("C17",
 "Static, for all arrival orders and failing/panicking requests: decides conservation of wrappers (allocated only at construction, bijective tags, removed from a list only by the pop that hands them out), that every successful acquire is paired with a deferred put of the same wrapper exactly once on all exits including panics, that putGengineLocked appends exactly once to the list chosen by gw.addition under its lock, that no two callers can pop the same wrapper, and that getGengine never fails and holds no lock across a retry. Right level: a leak on an error path or a double hand-out is a missing/extra node on a CFG path.",
 "Trusted: go/types + go/ssa, sync contracts, defer semantics. Not decided: fairness of the spin-wait, timing.",
 "acquire/deferred-release pairing over the CFG (A10), may/must lockset analysis, who-may-allocate analysis, symbolic loop bounds, over go/ssa")

claim("C07",
 "Static, for all interleavings of updates and executions: decides the three structural conditions that make an update atomic per execution and visible afterwards — exactly one read of the published container per engine execute method, before anything runs (U1); no write into KnowledgeContext memory other than on a container the same function just created, compiled rules never edited after compilation (U2); every management operation stores the master's new container into every instance i in [0,max) before a successful return (U3), under updateLock (U4), only after compilation succeeded (U5), and no pool lock is held while rules run (U6). Right level: torn reads and missed instances are properties of which loads/stores exist on which paths, for every schedule.",
 "Trusted: go/types + go/ssa, sync contracts. Not decided: visibility of the unsynchronised pointer publication under the Go memory model (that is known finding D12(c), reported under C19, not claimed to hold here); order between concurrent updates beyond mutual exclusion.",
 "single-read (snapshot) check, typestate fresh/published over go/ssa values with alias tracking through slices and appends, symbolic loop bounds, lockset analysis, must-not-reach (publish then error)")

claim("C16",
 "Static, for every sequence of management operations: decides that the nil-able master builder is never used without a dominating (path-sensitive) nil test or re-creation, that master and instances are updated together under updateLock with the cleared flag maintained, that the rule queries read the master under the lock and honour the flag, that all 24 execute methods run nothing on a cleared pool, that the execution-model validation and the 4x3 dispatch table are exact and every other pool method forwards to the engine method of the same name with arguments in place, and that all instances in [0,max) are covered. Right level: 'no sequence panics' and 'instances follow the master' are reachability/shape facts about the management code.",
 "Trusted: go/types + go/ssa. Not decided: equality of query answers with the denoted set over histories (inherits the undecided algebra of C08). PluginLoader (outside the property's operation list) is exempt.",
 "path-sensitive nil-guard analysis, sibling/table cross-check of dispatchers, lockset and loop-bound rules over go/ssa")

claim("C19",
 "Static lockset analysis over gengine's own shared state: one obligation per (shared field, accessing function, read/write) against a guarded-by table whose completeness is checked on every run (every field of the engine, builder, context and iter packages that is stored to after construction must be listed). Obligations are discharged by the guarding mutex held at the access (must-hold dataflow, deferred unlocks, one-level caller summaries), by construction, by immutability after construction, by ownership between pop and put, or by a local mutex for variables written inside goroutines. The 49 undischarged obligations of today's tree are exactly the recorded findings D12(b) (gp.clear / gp.execModel read by the request path without updateLock) and D12(c) (executions read the published RuleBuilder.Kc pointer without synchronisation); they are printed as KNOWN-FINDING and any other unguarded access is a VIOLATION. Right level: the race detector samples schedules; a lockset argument covers all of them.",
 "Trusted: go/types + go/ssa, Go memory model edges for mutex/go/WaitGroup. Sound w.r.t. the table; the table's completeness is checked structurally (stored fields), not proved. Not decided: races on host data reached through injected pointers. D12(b)/(c) are NOT claimed to hold.",
 "must-hold lockset dataflow (A5) with guarded-by table + table-completeness check, who-may-write (immutability) analysis, captured-variable write check in goroutine literals, over go/ssa")

claim("C15",
 "Static ownership / escape analysis of the local-variable store, for all rule sets, schedules and pool requests: exactly one map[string]reflect.Value other than the injected table is allocated, per call, in RuleEntity.Execute; every interpreter function passes on only the store it received; such a value is never stored into a field, package variable, container, channel or interface, nor returned; locals are read and written only after the injected table missed the same key, and only Add/PluginLoader/Del write the injected table; every rule of a call runs against the call's own data context. Right level: 'never visible to another execution' is an escape property of one value, decidable from who can hold a reference.",
 "Trusted: go/types + go/ssa. Sound modulo reflect/unsafe use by injected host functions. Goroutines of conc blocks that capture the store are joined (C18).",
 "allocation-site, parameter-threading and escape (who-may-store) analysis over go/ssa; guard analysis of name resolution order")

claim("C09",
 "Static, for all compilable rule texts and injected data in every execution model: decides the recover discipline (the rule entry point and the four call/assignment evaluators defer, before anything that can panic, a literal that turns recover() into the error result), that every goroutine literal of the product contains nothing that can panic outside a panic-safe worker, that the interpreter is entered from outside package base only through the recovering entry point, engine-level nil/index/window safety (miss edges, dominated length tests, counted indexes, guarded nil-able master), a complete inventory of loops with an established bound for each (range, counted, iterator with a cursor that advances by one, the cut-off for loop, two named loops), WaitGroup count agreement on one snapshot, that collected errors surface in all 21 execute methods, and an acyclic lock-order graph with no pool lock held while rules run. Right level: 'never panics out / never hangs' quantifies over all programs; the recover and loop structure every execution passes through is finite and fully enumerated.",
 "Trusted: go/types + go/ssa, recover() semantics, reflect panics being ordinary panics. Not decided: termination of injected host functions (assumed by the property), Go-fatal errors that recover cannot catch, stack exhaustion on absurdly deep expression trees.",
 "recover-discipline (panic-safety) analysis, who-may-call analysis, dominating-guard interval reasoning for indexes, loop inventory with induction-variable recognition, lock-order graph, over go/ssa")
