# Per-property claim texts for MANIFEST.json.  A property is listed in CLAIMS
# only once its check exists, is silent on the current tree and was seen to
# fire on a broken variant.
CLAIMS = {}

_PENDING = "static check designed (DESIGN.md section 6) but not yet built/validated in this round; not claimed until its rules are exact"
NOT_APPLICABLE = {f"C{i:02d}": _PENDING for i in range(1, 21)}
