#!/bin/sh
# validates MANIFEST.json and every evidence file against the given schemas
python3-vt - <<'PY'
import json,jsonschema,glob,sys
ok=True
try:
    jsonschema.validate(json.load(open('/verif/MANIFEST.json')), json.load(open('/root/.vp/MANIFEST.schema.json')))
    print('MANIFEST valid')
except Exception as e:
    ok=False; print('MANIFEST INVALID', str(e)[:300])
es=json.load(open('/root/.vp/EVIDENCE.schema.json'))
for f in sorted(glob.glob('/verif/evidence/*.json')):
    try:
        jsonschema.validate(json.load(open(f)), es)
    except Exception as e:
        ok=False; print(f,'INVALID',str(e)[:300])
print('evidence files checked:', len(glob.glob('/verif/evidence/*.json')))
sys.exit(0 if ok else 1)
PY
