#!/bin/bash
# Self-test of the checker: applies each single-edit variant under
# /verif/selftest/<prop>/*.diff (and /verif/seeded/*/patch.diff, /verif/seeded_refactored/*/patch.diff) to a
# scratch copy of /repo, makes sure it still compiles, runs the property's check on the
# copy and demands a VIOLATION. Usage: tools/selftest.sh [-j N] [prop ...]   (N variants at a time, default 8)
set -u
export GOFLAGS=-mod=mod GOPROXY=off GOSUMDB=off GOTOOLCHAIN=local
V=/verif
J=8; [ "${1:-}" = "-j" ] && { J=$2; shift 2; }
props="$@"
S=$(mktemp -d /tmp/gverif-selftest.XXXXXX)
trap 'rm -rf "$S"' EXIT
BIN=${GVERIF_BIN:-$V/bin/gverif}
one() {
  d=$1; prop=$2; name=$3; S=$4; BIN=$5
  T=$(mktemp -d $S/t.XXXXXX)
  mkdir -p "$T/repo" "$T/verif"; cp /verif/known_findings.txt /verif/properties.jsonl "$T/verif/" 2>/dev/null
  rsync -a --exclude .git --exclude test /repo/ "$T/repo/"
  if ! (cd "$T/repo" && patch -p1 -s --no-backup-if-mismatch < "$d" >/dev/null 2>&1); then echo "SELFTEST-BROKEN $name: patch does not apply"; rm -rf "$T"; return; fi
  if ! (cd "$T/repo" && go build ./... >/dev/null 2>"$T/build.err"); then echo "SELFTEST-BROKEN $name: variant does not compile: $(head -3 $T/build.err | tr '\n' ' ')"; rm -rf "$T"; return; fi
  out=$(GVERIF_REPO="$T/repo" GVERIF_DIR="$T/verif" $BIN check $prop 2>&1); code=$?
  if [ $code -eq 1 ] && echo "$out" | grep -q "^VIOLATION property=$prop"; then
    echo "detected   $name: $(echo "$out" | grep FAIL | head -1 | cut -c1-220)"
  else
    echo "MISSED     $name (exit $code)"
  fi
  rm -rf "$T"
}
export -f one
list=$(ls $V/selftest/*/*.diff 2>/dev/null; for d in $V/seeded/*/ $V/seeded_refactored/*/; do [ -f "$d/patch.diff" ] && echo "${d}patch.diff"; done)
: > $S/jobs
python3 - "$props" > $S/jobs <<'P'
import sys,json,glob,os
props=sys.argv[1].split()
ds=sorted(glob.glob('/verif/selftest/*/*.diff'))+sorted(glob.glob('/verif/seeded/*/patch.diff'))+sorted(glob.glob('/verif/seeded_refactored/*/patch.diff'))
for d in ds:
    dd=os.path.dirname(d)
    if '/selftest/' in d:
        prop=os.path.basename(dd); name=prop+'/'+os.path.basename(d)[:-5]
    else:
        prop=json.load(open(dd+'/meta.json'))['property']; name=os.path.basename(os.path.dirname(dd))+'/'+os.path.basename(dd)
    if props and prop not in props: continue
    print(d,prop,name)
P
cat $S/jobs | xargs -P $J -L 1 bash -c 'one "$0" "$1" "$2" "'$S'" "'$BIN'"' | tee $S/out
n=$(grep -c -E '^(detected|MISSED)' $S/out); det=$(grep -c '^detected' $S/out)
echo "selftest: variants=$n detected=$det"
if grep -q -E '^(MISSED|SELFTEST-BROKEN)' $S/out; then exit 1; fi
exit 0
