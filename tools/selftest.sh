#!/bin/bash
# Self-test of the checker: applies each single-edit variant under
# /verif/selftest/<prop>/*.diff (and /verif/seeded/*/patch.diff) to a scratch
# copy of /repo, makes sure it still compiles, runs the property's check on the
# copy and demands a VIOLATION. Usage: tools/selftest.sh [prop ...]
set -u
export GOFLAGS=-mod=mod GOPROXY=off GOSUMDB=off GOTOOLCHAIN=local
V=/verif
props="$@"
fail=0; n=0; det=0
S=$(mktemp -d /tmp/gverif-selftest.XXXXXX)
trap 'rm -rf "$S"' EXIT
mkdir -p "$S/verif"; cp $V/known_findings.txt "$S/verif/" 2>/dev/null; cp $V/properties.jsonl "$S/verif/"
list=$(ls $V/selftest/*/*.diff 2>/dev/null; for d in $V/seeded/*/ $V/seeded_refactored/*/; do [ -f "$d/patch.diff" ] && echo "$d/patch.diff"; done)
for d in $list; do
  if [[ "$d" == */seeded/* || "$d" == */seeded_refactored/* ]]; then
    prop=$(python3 -c "import json,sys;print(json.load(open('$(dirname $d)/meta.json'))['property'])")
    name=$(basename $(dirname $(dirname $d)))/$(basename $(dirname $d))
  else
    prop=$(basename $(dirname $d)); name=$prop/$(basename $d .diff)
  fi
  if [ -n "$props" ] && ! echo " $props " | grep -q " $prop "; then continue; fi
  rm -rf "$S/repo"; mkdir -p "$S/repo"
  rsync -a --exclude .git --exclude test /repo/ "$S/repo/"
  if ! (cd "$S/repo" && patch -p1 -s --no-backup-if-mismatch < "$d" >/dev/null 2>&1); then echo "SELFTEST-BROKEN $name: patch does not apply"; fail=1; continue; fi
  if ! (cd "$S/repo" && go build ./... >/dev/null 2>"$S/build.err"); then echo "SELFTEST-BROKEN $name: variant does not compile: $(head -3 $S/build.err)"; fail=1; continue; fi
  n=$((n+1))
  out=$(GVERIF_REPO="$S/repo" GVERIF_DIR="$S/verif" ${GVERIF_BIN:-$V/bin/gverif} check $prop 2>&1); code=$?
  if [ $code -eq 1 ] && echo "$out" | grep -q "^VIOLATION property=$prop"; then
    det=$((det+1)); echo "detected   $name: $(echo "$out" | grep FAIL | head -1 | cut -c1-220)"
  else
    echo "MISSED     $name (exit $code)"; fail=1
  fi
done
echo "selftest: variants=$n detected=$det"
exit $fail
